#!/bin/sh
# run every registered check on /repo (quick tier) and report exit codes
cd /verif
for p in C01 C02 C03 C04 C05 C06 C07 C08 C09 C10 C11 C12 C13 C14 C15 C16 C17 C18 C19; do
  PYTHONPATH=/repo python3-vt check.py --property $p --tier ${1:-quick} > /tmp/runall_$p.log 2>&1
  echo "$p exit $? $(grep ^SUMMARY /tmp/runall_$p.log | cut -c1-220)"
done
