"""dev helper: for one VC, try to prove the goal from (a) quantifier-free assumptions only, (b) all; print an unsat core of assumption indexes"""
import sys
sys.path.insert(0, '/verif')
from contracts import build_world
from pyvc.spec import Verifier
import z3
w = build_world(); v = Verifier(w)
res = v.verify(sys.argv[1]); ax = v.global_axioms()
def hasq(e):
    if z3.is_quantifier(e): return True
    return any(hasq(c) for c in e.children())
for vc in res.vcs:
    if sys.argv[2] in vc.name:
        print('==', vc.name, len(vc.assumptions), 'assumptions')
        qf = [a for a in vc.assumptions if not hasq(a)]
        for label, hyps in (('qf', qf), ('all', list(vc.assumptions) + list(ax))):
            s = z3.Solver(); s.set('timeout', 20000)
            ps = []
            for i, a in enumerate(hyps):
                p = z3.Bool('h%d' % i); ps.append(p); s.add(z3.Implies(p, a))
            s.add(z3.Not(vc.goal))
            r = s.check(*ps)
            print(label, r)
            if r == z3.unsat:
                core = s.unsat_core()
                for c in core:
                    i = int(str(c)[1:]); print('   ', i, str(hyps[i])[:200].replace('\n', ' '))
                break
            if r == z3.sat and label == 'qf' and len(sys.argv) > 3:
                m = s.model()
                for t in sys.argv[3:]:
                    pass
        if len(sys.argv) > 3:
            for i, a in enumerate(vc.assumptions):
                if sys.argv[3] in str(a):
                    print('  A%d' % i, str(a)[:400].replace('\n', ' '))
