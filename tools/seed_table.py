"""markdown table of seeded/RESULTS.json for DESIGN.md section 8.6"""
import json, os, re
R = json.load(open('/verif/seeded/RESULTS.json'))
rows = ['| seed | change (summary) | check | caught by |', '|------|------------------|-------|-----------|']
caught = 0
for sid in sorted(R):
    r = R[sid]
    meta = json.load(open('/verif/seeded/%s/meta.json' % sid))
    summ = (meta.get('summary') or '').replace('|', '/').replace('\n', ' ')[:110]
    if not r.get('applies'):
        rows.append('| %s | %s | — | patch does not apply |' % (sid, summ))
        continue
    for p, c in r['checks'].items():
        v = c['violations']
        if c['exit'] == 1 and v:
            caught += 1
            first = v[0]
            m = re.search(r'obligation=(\S+)', first)
            if m:
                how = 'P: obligation `%s` refuted' % m.group(1).split(':', 1)[-1]
            else:
                txt = first.split('.json', 1)[-1].strip()
                kind = 'G/AST pass' if ('hl7apy/' in txt[:12] or 'calls ' in txt[:80] and '()' in txt[:60]) else 'G/B'
                how = '%s: %s' % (kind, txt[:95].replace('|', '/'))
            nobl = sum(1 for x in v if 'obligation' in x)
            if nobl and not m:
                how += '; + %d contract obligation%s' % (nobl, '' if nobl == 1 else 's')
            rows.append('| %s | %s | %s exit 1 | %s |' % (sid, summ, p, how))
        else:
            rows.append('| %s | %s | %s exit %d | **missed** |' % (sid, summ, p, c['exit']))
print('\n'.join(rows))
print('\n%d of %d seeded changes are reported by the check of their own property.' % (caught, len(R)))
print('%d of them are (also) reported by a contract obligation.' % sum(1 for sid in R for c in R[sid]['checks'].values() if any('obligation' in x for x in c['violations'])))
