import sys
sys.path.insert(0,'/verif')
from contracts import build_world
from pyvc.spec import Verifier
import z3
w=build_world(); v=Verifier(w)
res=v.verify(sys.argv[1])
for vc in res.vcs:
    if sys.argv[2] in vc.name:
        for a in vc.assumptions[-int(sys.argv[3]):]:
            print('ASSUME', z3.simplify(a) if not z3.is_quantifier(a) else a)
        print('GOAL', vc.goal)
