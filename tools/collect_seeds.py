"""Confirm each sub-agent seed in a scratch worktree of the pinned commit and store it under /verif/seeded/<id>/.
usage: python3 tools/collect_seeds.py  (reads /tmp/seed/Cxx/{seed_a.diff,seed_b.diff,demo_a.py,demo_b.py,seed_meta.json})"""
import json, os, shutil, subprocess, sys

PINNED = '8ad0c95'
OUT = '/verif/seeded'
os.makedirs(OUT, exist_ok=True)


def sh(cmd, cwd=None, timeout=1200):
    p = subprocess.run(cmd, shell=True, cwd=cwd, stdout=subprocess.PIPE, stderr=subprocess.STDOUT, text=True, timeout=timeout)
    return p.returncode, p.stdout


def main():
    only = sys.argv[1:]
    for pid in sorted(os.listdir('/tmp/seed')):
        if not pid.startswith('C') or (only and pid not in only):
            continue
        d = os.path.join('/tmp/seed', pid)
        meta_all = {}
        try:
            meta_all = json.load(open(os.path.join(d, 'seed_meta.json')))
        except Exception as e:
            print(pid, 'no meta', e)
        for v in ('a', 'b'):
            diff = os.path.join(d, 'seed_%s.diff' % v)
            demo = os.path.join(d, 'demo_%s.py' % v)
            if not (os.path.exists(diff) and os.path.exists(demo)):
                print(pid, v, 'missing files')
                continue
            sid = '%s_%s' % (pid, v)
            wt = '/tmp/seedcheck_%s' % sid
            sh('git -C /repo worktree remove --force %s' % wt)
            rc, out = sh('git -C /repo worktree add -q --detach %s %s' % (wt, PINNED))
            if rc:
                print(sid, 'worktree failed', out)
                continue
            try:
                shutil.copy(demo, os.path.join(wt, 'demo.py'))
                rc0, out0 = sh('/venv/bin/python demo.py', cwd=wt, timeout=600)
                rc1, out1 = sh('git apply %s' % diff, cwd=wt)
                if rc1:
                    print(sid, 'patch does not apply', out1)
                    continue
                rc2, out2 = sh('/venv/bin/python demo.py', cwd=wt, timeout=600)
                rc3, out3 = sh("unshare -rn sh -c 'ip link set lo up; /venv/bin/python -m pytest -q -p no:cacheprovider -x' 2>&1 | tail -3", cwd=wt)
                tests_ok = ' passed' in out3 and 'failed' not in out3 and 'error' not in out3.lower()
                ok = rc0 == 0 and rc2 != 0 and tests_ok
                print(sid, 'demo clean rc=%d, seeded rc=%d, tests: %s -> %s' % (rc0, rc2, out3.strip().split('\n')[-1], 'KEEP' if ok else 'DROP'))
                if ok:
                    od = os.path.join(OUT, sid)
                    os.makedirs(od, exist_ok=True)
                    shutil.copy(diff, os.path.join(od, 'patch.diff'))
                    shutil.copy(demo, os.path.join(od, 'demo.py'))
                    m = meta_all.get(v, {})
                    json.dump({'id': sid, 'property': pid, 'summary': m.get('summary'), 'files': m.get('files'),
                               'needs_to_manifest': m.get('needs_to_manifest'), 'why_tests_pass': m.get('why_tests_pass'),
                               'origin': 'written by an independent sub-agent given only the property text and a scratch worktree',
                               'confirmed': {'base_commit': PINNED, 'demo_without_patch_rc': rc0, 'demo_with_patch_rc': rc2,
                                             'demo_with_patch_output_head': out2[:600],
                                             'tests_with_patch': out3.strip().split('\n')[-1],
                                             'how': 'scratch worktree of the pinned commit; git apply; demo.py; '
                                                    'pytest in a private network namespace (the suite binds fixed ports)'}},
                              open(os.path.join(od, 'meta.json'), 'w'), indent=1)
            finally:
                sh('git -C /repo worktree remove --force %s' % wt)
                sh('rm -rf %s' % wt)


main()
