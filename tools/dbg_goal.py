import sys
sys.path.insert(0,'/verif')
from contracts import build_world
from pyvc.spec import Verifier
from pyvc import smt
from pyvc.engine import VC
import z3
w=build_world(); v=Verifier(w)
res=v.verify(sys.argv[1]); ax=v.global_axioms()
def drill(assumps, goal, depth, prefix):
    r=smt.discharge(smt.vc_to_smt2(VC('x',assumps,goal),ax),timeout=20)
    print('  '*depth+prefix, r['status'], str(goal)[:160].replace('\n',' '))
    if r['status']=='unsat' or depth>4: return
    if z3.is_and(goal):
        for i,c in enumerate(goal.children()): drill(assumps,c,depth+1,'and%d'%i)
    elif z3.is_or(goal) and len(goal.children())==2 :
        a,b=goal.children()
        drill(assumps+[z3.Not(a)],b,depth+1,'or-rhs')
    elif z3.is_implies(goal):
        a,b=goal.children()
        drill(assumps+[a],b,depth+1,'imp-rhs')
for vc in res.vcs:
    if sys.argv[2] in vc.name:
        drill(list(vc.assumptions), vc.goal, 0, 'goal')
