"""One-off helper (run on the unchanged tree, output reviewed by hand): turns the table-level ground failures into
KNOWN_FINDINGS entries, one per (version, segment) family, so that any OTHER row still counts as a violation."""
import json, re, sys
sys.path.insert(0, '/verif'); sys.path.insert(0, '/repo')
from ground import tables
K = '/verif/KNOWN_FINDINGS.json'
k = json.load(open(K))
k['findings'] = [f for f in k['findings'] if not f.get('generated')]
fams = {}
for fn in (tables.twf_segments, tables.constructible, tables.positions):
    r = fn('thorough')
    for f in r['failures']:
        fams.setdefault(f['family'], []).append(f)
for fam, fs in sorted(fams.items()):
    if 'ANYHL7SEGMENT' in fam:
        continue
    kind = fam.split(':')[0]
    k['findings'].append({'kind': 'known', 'generated': True, 'properties': ['C01', 'C02'],
                          'id': fam, 'match': '^' + re.escape(fam) + '$',
                          'rows': [f['id'] for f in fs][:40],
                          'text': '%s (%d row%s): %s' % (fam, len(fs), '' if len(fs) == 1 else 's', fs[0]['text'][:230])})
json.dump(k, open(K, 'w'), indent=1)
print(len(fams), 'families')
