"""Regenerate baseline/obligations.json: the obligations discharged on the UNCHANGED tree (run after every fix commit
to /repo and every contract change; reviewed and committed by hand - checks only read it).
usage: PYTHONPATH=/repo python3-vt tools/gen_baseline.py"""
import json, os, subprocess, sys, time
sys.path.insert(0, '/verif')
os.environ.setdefault('HL7APY_REPO', '/repo')
import check
from contracts import build_world
from framework.report import base_name

w = build_world()
keys = sorted(set(k for ks in w.property_funcs.values() for k in ks))      # (thorough-only contracts included)
os.environ['VERIF_GEN_LIMIT'] = '2400'
check.GEN_LIMIT = 2400
os.environ['VERIF_SCRATCH'] = '/verif/scratch/baseline'
os.makedirs(os.environ['VERIF_SCRATCH'], exist_ok=True)
open('/verif/baseline/obligations.json', 'w').write('{"discharged": {}}')     # no retries against a stale baseline
t0 = time.time()
gens, sols, tg, ts = check.run_contract_obligations(keys, 'thorough', 16)
dis, notdis = {}, {}
for g in gens:
    for vc in g['vcs']:
        b = base_name(vc['name'])
        st = sols[vc['name']]['status']
        if st == 'unsat':
            dis.setdefault(b, 0)
            dis[b] += 1
        else:
            notdis[b] = st
for b in notdis:
    dis.pop(b, None)
head = subprocess.run(['git', '-C', '/repo', 'rev-parse', 'HEAD'], capture_output=True, text=True).stdout.strip()
json.dump({'repo_head': head, 'functions': len(keys), 'discharged': dis, 'not_discharged': notdis,
           'functions_not_ok': {g['key']: g['status'] + ': ' + str(g['reason'])[:200] for g in gens if g['status'] != 'ok'}},
          open('/verif/baseline/obligations.json', 'w'), indent=0, sort_keys=True)
print('functions', len(keys), 'distinct obligations discharged', len(dis), 'not discharged', notdis, 'wall %.0fs' % (time.time() - t0))
print({g['key']: g['status'] for g in gens if g['status'] != 'ok'})
