"""Apply every confirmed seed, run the check of its property, undo the patch; report which checks catch it.

By default the patches are applied to a scratch git worktree of /repo's HEAD (HL7APY_REPO points the checks at it),
so that /repo stays untouched while other work goes on; `--in-repo` applies them to /repo itself
(git -C /repo apply ...; checks; git -C /repo checkout -- .) as the brief describes.

usage: python3 tools/run_seeds.py [--in-repo] [--props=C01,C02] [seed ids...]   (updates seeded/RESULTS.json)"""
import json
import os
import subprocess
import sys
import time

SEEDED = '/verif/seeded'
IN_REPO = '--in-repo' in sys.argv
REPO = '/repo' if IN_REPO else '/tmp/seedrun_repo_%d' % os.getpid()


def sh(cmd, cwd=None, timeout=3600):
    p = subprocess.run(cmd, shell=True, cwd=cwd, stdout=subprocess.PIPE, stderr=subprocess.STDOUT, text=True, timeout=timeout)
    return p.returncode, p.stdout


def main():
    args = [a for a in sys.argv[1:] if not a.startswith('--')]
    extra_props = [a[8:] for a in sys.argv[1:] if a.startswith('--props=')]
    results = {}
    rp = os.path.join(SEEDED, 'RESULTS.json')
    if os.path.exists(rp):
        results = json.load(open(rp))
    if IN_REPO:
        rc, out = sh('git -C /repo status --porcelain')
        if out.strip():
            print('refusing: /repo has local changes\n' + out)
            sys.exit(2)
    else:
        rc, out = sh('git -C /repo worktree add -q --detach %s HEAD' % REPO)
        if rc:
            print(out)
            sys.exit(2)
    try:
        for sid in sorted(os.listdir(SEEDED)):
            d = os.path.join(SEEDED, sid)
            if not os.path.isdir(d) or (args and sid not in args):
                continue
            meta = json.load(open(os.path.join(d, 'meta.json')))
            pid = meta['property']
            props = extra_props[0].split(',') if extra_props else [pid]
            pf = 'patch_current.diff' if os.path.exists(os.path.join(d, 'patch_current.diff')) else 'patch.diff'
            rc, out = sh('git -C %s apply %s/%s' % (REPO, d, pf))
            if rc:
                sh('git -C %s reset -q --hard HEAD' % REPO)
                results[sid] = {'applies': False, 'note': out[-300:]}
                print(sid, 'DOES NOT APPLY on the current tree')
                continue
            try:
                row = results.get(sid, {}) if results.get(sid, {}).get('applies') else {}
                row.setdefault('checks', {})
                row['applies'] = True
                for p in props:
                    t0 = time.time()
                    rc, out = sh('cd /verif && VERIF_OUT=/tmp/seedrun_out HL7APY_REPO=%s PYTHONPATH=%s python3-vt check.py --property %s' % (REPO, REPO, p))
                    lines = [l for l in out.split('\n') if l.startswith('VIOLATION') or l.startswith('UNDECIDED')]
                    row['checks'][p] = {'exit': rc, 'violations': [l[:300] for l in lines if l.startswith('VIOLATION')][:6],
                                        'undecided': len([l for l in lines if l.startswith('UNDECIDED')]),
                                        'wall_s': round(time.time() - t0, 1)}
                    print(sid, p, 'exit', rc, '|', (row['checks'][p]['violations'] or ['-'])[0][:220])
                    sys.stdout.flush()
                rc, out = sh('cd %s && PYTHONPATH=%s /venv/bin/python %s/demo.py' % (REPO, REPO, d), timeout=900)
                row['demo_rc_on_patched_current_tree'] = rc
                results[sid] = row
            finally:
                sh('git -C %s reset -q --hard HEAD' % REPO)
            json.dump(results, open(rp, 'w'), indent=1)
    finally:
        if not IN_REPO:
            sh('git -C /repo worktree remove --force %s' % REPO)
            sh('rm -rf %s' % REPO)
    rc, out = sh('git -C /repo status --porcelain')
    print('repo clean:', not out.strip())


main()
