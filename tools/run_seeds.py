"""Apply every confirmed seed to /repo, run the check of its property, undo the patch; report which checks catch it.
usage: python3 tools/run_seeds.py [seed ids...]   (writes seeded/RESULTS.json)"""
import json, os, subprocess, sys, time

SEEDED = '/verif/seeded'


def sh(cmd, cwd=None, timeout=3600):
    p = subprocess.run(cmd, shell=True, cwd=cwd, stdout=subprocess.PIPE, stderr=subprocess.STDOUT, text=True, timeout=timeout)
    return p.returncode, p.stdout


def main():
    args = [a for a in sys.argv[1:] if not a.startswith('--')]
    extra_props = [a[8:] for a in sys.argv[1:] if a.startswith('--props=')]
    results = {}
    rp = os.path.join(SEEDED, 'RESULTS.json')
    if os.path.exists(rp):
        results = json.load(open(rp))
    rc, out = sh('git -C /repo status --porcelain')
    if out.strip():
        print('refusing: /repo has local changes\n' + out)
        sys.exit(2)
    for sid in sorted(os.listdir(SEEDED)):
        d = os.path.join(SEEDED, sid)
        if not os.path.isdir(d) or (args and sid not in args):
            continue
        meta = json.load(open(os.path.join(d, 'meta.json')))
        pid = meta['property']
        props = extra_props[0].split(',') if extra_props else [pid]
        rc, out = sh('git -C /repo apply %s/patch.diff' % d)
        if rc:
            rc, out = sh('git -C /repo apply -3 %s/patch.diff' % d)
        if rc:
            sh('git -C /repo checkout -- . ; git -C /repo reset -q')
            results[sid] = {'applies': False, 'note': out[-300:]}
            print(sid, 'DOES NOT APPLY on the current tree')
            continue
        try:
            row = {'applies': True, 'checks': {}}
            for p in props:
                t0 = time.time()
                rc, out = sh('cd /verif && PYTHONPATH=/repo python3-vt check.py --property %s' % p)
                lines = [l for l in out.split('\n') if l.startswith('VIOLATION') or l.startswith('UNDECIDED')]
                row['checks'][p] = {'exit': rc, 'violations': [l[:300] for l in lines if l.startswith('VIOLATION')][:6],
                                    'undecided': len([l for l in lines if l.startswith('UNDECIDED')]),
                                    'wall_s': round(time.time() - t0, 1)}
                print(sid, p, 'exit', rc, '|', (row['checks'][p]['violations'] or ['-'])[0][:200])
            rc, out = sh('cd /repo && /venv/bin/python %s/demo.py' % d, timeout=900)
            row['demo_rc_on_patched_current_tree'] = rc
            results[sid] = row
        finally:
            sh('git -C /repo checkout -- . ; git -C /repo reset -q')
        json.dump(results, open(rp, 'w'), indent=1)
    rc, out = sh('git -C /repo status --porcelain')
    print('repo clean:', not out.strip())


main()
