"""Writes /verif/MANIFEST.json from framework/props.py (+ the not_applicable list kept here)."""
import json, sys
sys.path.insert(0, '/verif')
from framework.props import PROPS

props = [json.loads(l) for l in open('/verif/properties.jsonl')]
TEXT = {
 'proof': 'every obligation generated from the real source for this property is discharged by an SMT solver on every run',
}
NOT_YET = {}
checks = []
na = []
for p in props:
    pid = p['id']
    if pid not in PROPS:
        na.append({'property_id': pid, 'reason': NOT_YET.get(pid, 'check not built yet (build in progress; see DESIGN.md section 7)')})
        continue
    cfg = PROPS[pid]
    checks.append({
        'property_id': pid,
        'quick_cmd': 'python3-vt check.py --property %s --tier quick' % pid,
        'thorough_cmd': 'python3-vt check.py --property %s --tier thorough' % pid,
        'evidence_file': 'evidence/%s.json' % pid,
        'replay_cmd_template': 'python3-vt check.py --property %s --replay {path}' % pid,
        'engine': 'pyvc',
        'level_claimed': {'category': cfg.get('level', 'other'),
                          'text': cfg.get('claim') or ('Contract-based deductive verification of the functions the property depends on: '
                                  'pre/postconditions, frames and exceptional postconditions stated in /verif/contracts, verification conditions '
                                  'generated from the AST of the real source on every run, discharged by z3/cvc5 for all inputs. '
                                  + cfg.get('explanation', '') + '. Parts outside the verifier\'s reach are covered by ground table passes '
                                  '(exhaustive) and bounded stand-ins, which are labelled as such in the evidence and never counted as proved.'),
                          'design_ref': 'DESIGN.md section 4 (%s)' % pid},
        'level_note': cfg.get('note') or ('Trusted: the pyvc VC generator, the SMT solvers, contracts on CPython builtins, heap well-typedness '
                      'w.r.t. contracts/schema.py, interface contracts listed under assumed_contracts in the evidence; partial correctness only.'),
        'technique': cfg.get('technique', 'contract-based deductive verification (VCs from the real AST, SMT-discharged) + ground table obligations + bounded stand-ins'),
    })
m = {
 'version': 1,
 'setup_cmd': 'true',
 'hooks': {'guard': 'HL7APY_VERIF', 'enable': 'not used: contracts are sidecar files under /verif/contracts, no source hooks in /repo',
           'baseline_off_cmd': 'cd /repo && /venv/bin/python -m pytest -ra -q -p no:cacheprovider --timeout=900 --continue-on-collection-errors',
           'source_commits': [], 'add_only': True},
 'engines': [{'name': 'pyvc', 'path': 'pyvc/', 'serves_properties': sorted(PROPS),
              'kind_free_text': 'verification-condition generator for a Python subset (symbolic execution of the real AST against sidecar contracts), '
                                'SMT portfolio z3 4.8.12 / z3 5.1 / cvc5 1.0.3'}],
 'checks': checks,
 'notes': 'fix: commits in /repo are recorded in KNOWN_FINDINGS.json (kind=fixed); recorded-not-repaired defects are kind=known.',
 'not_applicable': na,
}
json.dump(m, open('/verif/MANIFEST.json', 'w'), indent=1)
print(len(checks), 'checks,', len(na), 'not applicable')
