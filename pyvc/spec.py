"""Contracts, evaluation of contract clauses, verification of a function against its contract
(VC generation), application of callee contracts, loop cutting."""
import ast
import os
import importlib
import types as _types
import z3

from .tys import *     # noqa
from .engine import (SV, mk, NOPY, NONE_SV, PYOBJ, ExcVal, Raised, OutOfReach, Val, VNONE, SORTS, IntS, BoolS, StrS,
                     code_of, fresh, fresh_name, VC, Frame, State, Executor)
from .expr import ExprMixin, PyDict, LambdaV, GenV, CondList, CondSet
from .calls import CallMixin, func_key
from .builtins import BuiltinMixin
from .stmt import StmtMixin, FALL, NestedFunc, _hdr
from . import source


def _mentions(e, c):
    seen = set()
    stack = [e]
    cid = c.get_id()
    while stack:
        x = stack.pop()
        if x.get_id() == cid:
            return True
        if x.get_id() in seen:
            continue
        seen.add(x.get_id())
        if z3.is_quantifier(x):
            stack.append(x.body())
        else:
            stack.extend(x.children())
    return False


class _LoopFrame(object):
    """the part of a contract that havoc() consults, for a loop specification with a `modifies` frame"""
    def __init__(self, allocates):
        self.allocates = allocates or False


class Contract(object):
    def __init__(self, key, sig=None, returns=None, requires=(), ensures=(), raises=None, modifies=None,
                 loops=None, inline=False, interface=False, pure=False, self_type=None, closure=None,
                 properties=(), notes='', reads_globals=None, ctor_of=None, allocates=True, exact_self=False,
                 raises_only=None, ghost_pre=None, verify=True, local_types=None, dynamic_calls=None, call_asserts=None):
        self.key = key
        self.sig = dict(sig or {})              # param name -> type string
        self.returns = returns                  # type string or None
        self.requires = list(requires)          # expression strings
        self.ensures = list(ensures)            # (name, expression string)
        self.raises = dict(raises or {})        # exception class name -> {'when': str, 'must': str, 'ensures': [(name, str)]}
        self.modifies = modifies                # None = unconstrained; list of location strings
        self.loops = dict(loops or {})          # ordinal -> {'header': str, 'inv': [(name, str)], 'vars': {name: type}}
        self.inline = inline
        self.interface = interface
        self.pure = pure
        self.closure = dict(closure or {})      # free variable name -> type string (nested functions)
        self.properties = list(properties)
        self.notes = notes
        self.ctor_of = ctor_of
        self.allocates = allocates
        self.exact_self = exact_self
        self.raises_only = raises_only          # if set: list of exception class names that may escape (C15)
        self.ghost_pre = ghost_pre
        self.local_types = dict(local_types or {})   # local name -> type of the empty list / dict literal bound to it
        self.call_asserts = dict(call_asserts or {})     # callee source text -> [(name, expression over locals, arg(i), kwarg(n))]
        self.dynamic_calls = dict(dynamic_calls or {})   # source text of a callee expression -> {'contract': key, 'new': Class}
        self.verify = verify                    # False: assumed at call sites only (listed as an assumption)


class NoneBase(OutOfReach):
    """a location expression dereferences a value that is concretely None: the location does not exist"""


class VerifyResult(object):
    def __init__(self, key):
        self.key = key
        self.vcs = []
        self.status = 'ok'          # ok | out_of_reach | error
        self.reason = ''
        self.paths = 0
        self.fs = None
        self.inlined = []
        self.notes = []
        self.fmt_templates = {}


class Verifier(ExprMixin, CallMixin, BuiltinMixin, StmtMixin, Executor):

    def __init__(self, world, **kw):
        Executor.__init__(self, world, **kw)
        self.loop_index = {}
        self.cur_contract = None
        self.top_key = None
        self.closure_env = {}

    # ------------------------------------------------------------------ spec expression evaluation
    def spec_eval(self, expr, st, env, pre=None):
        """evaluate a contract clause (python expression string) to a z3 Bool / SV in state st"""
        node = ast.parse(expr.strip(), mode='eval').body
        old_mode, old_ctx = self.spec_mode, getattr(self, 'spec_ctx', None)
        self.spec_mode = True
        self.spec_ctx = {'pre': pre, 'env': env}
        old_facts = getattr(self, 'spec_facts', None)
        if old_facts is None:
            self.spec_facts = []
        try:
            st1 = st.copy()
            st1.locals = dict(env)
            return self.sev(node, st1)
        finally:
            self.spec_mode, self.spec_ctx = old_mode, old_ctx
            if old_facts is None:
                self.last_spec_facts = self.spec_facts
                self.spec_facts = None

    def spec_bool(self, expr, st, env, pre=None, as_goal=False):
        """clause as a z3 Bool.  Heap typing facts about the locations the clause reads (declared class, non-null,
        closedness) are heap invariants: conjoined when the clause is assumed, hypotheses when it is a goal."""
        v = self.spec_eval(expr, st, env, pre)
        facts = []
        seen = set()
        for f in (self.last_spec_facts or []):
            if f.get_id() not in seen:
                seen.add(f.get_id())
                facts.append(f)
        c = self.truth(st, v)
        if c is None:
            raise OutOfReach('spec clause is not boolean: %s' % expr)
        c = c if not isinstance(c, bool) else z3.BoolVal(c)
        if not facts:
            return c
        if as_goal:
            return z3.Implies(z3.And(*facts), c)
        return z3.And(*(facts + [c]))

    def sev(self, node, st):
        m = getattr(self, 'sev_' + type(node).__name__, None)
        if m is None:
            raise OutOfReach('spec expression %s' % type(node).__name__)
        return m(node, st)

    def sev_Constant(self, node, st):
        return mk(node.value)

    def sev_Name(self, node, st):
        if node.id in st.locals:
            return st.locals[node.id]
        if node.id in ('True', 'False', 'None'):
            return mk({'True': True, 'False': False, 'None': None}[node.id])
        # class names / module constants
        if node.id in self.world.classes:
            return mk(self.world.classes[node.id])
        c = self.world.specfuncs.get('const:' + node.id)
        if c is not None:
            return c(self, st)
        raise OutOfReach('spec name %s' % node.id)

    def sev_Tuple(self, node, st):
        return SV(None, Ty('pytuple'), tuple(self.sev(e, st) for e in node.elts))

    def sev_Attribute(self, node, st):
        base = self.sev(node.value, st)
        if base.is_py and isinstance(base.py, (_types.ModuleType, type)):
            return mk(getattr(base.py, node.attr))
        if base.is_py and base.py is None:
            raise NoneBase('attribute %s of None in a spec expression' % node.attr)
        if not base.is_py and base.ty.kind == 'opt' and base.ty.args[0].kind == 'obj':
            base = SV(base.term, base.ty.args[0])
        if not base.is_py and base.ty.kind == 'obj':
            cname = base.ty.args[0]
            fty = self.world.field_type(cname, node.attr)
            if fty is not None:
                key = self.world.field_key(cname, node.attr)
                t = self.H(st, key)[base.term]
                if self.spec_facts is not None:
                    self.spec_facts.extend(self.type_facts(st, t, fty))
                return SV(t, fty)
            f = self.world.specfuncs.get('attr:%s' % node.attr)
            if f is not None:
                return f(self, st, base)
        raise OutOfReach('spec attribute %s of %r' % (node.attr, base))

    def sev_Subscript(self, node, st):
        base = self.sev(node.value, st)
        if isinstance(node.slice, ast.Slice):
            lo = self.sev(node.slice.lower, st) if node.slice.lower else None
            hi = self.sev(node.slice.upper, st) if node.slice.upper else None
            rs = list(self.slice(st, base, lo, hi, None))
            if len(rs) != 1:
                raise OutOfReach('spec slice')
            return rs[0][1]
        idx = self.sev(node.slice, st)
        rs = list(self.getitem(st, base, idx, None))
        if len(rs) != 1 or isinstance(rs[0][1], Raised):
            raise OutOfReach('spec subscript %s' % ast.unparse(node))
        return rs[0][1]

    def sev_UnaryOp(self, node, st):
        v = self.sev(node.operand, st)
        if isinstance(node.op, ast.Not):
            return self.bool_sv(self.not_(self.truth(st, v)))
        if isinstance(node.op, ast.USub):
            return mk(-v.py) if v.is_py else SV(-v.term, INT)
        raise OutOfReach('spec unary')

    def sev_BoolOp(self, node, st):
        cs = []
        isand = isinstance(node.op, ast.And)
        for v in node.values:
            c = self.truth(st, self.sev(v, st))
            if c is None:
                raise OutOfReach('spec boolop on objects')
            cs.append(c)
            if c is (not isand):        # concrete short circuit: later operands may be undefined (e.g. None.attr)
                break
        return self.bool_sv(self.and_(cs) if isand else self.or_(cs))

    def sev_IfExp(self, node, st):
        c = self.truth(st, self.sev(node.test, st))
        a, b = self.sev(node.body, st), self.sev(node.orelse, st)
        if isinstance(c, bool):
            return a if c else b
        code = code_of(self.static_type(a)) if not a.is_py else (code_of(self.static_type(b)) if not b.is_py else
                                                                  {bool: 'B', int: 'I', str: 'S'}[type(a.py)])
        ty = self.static_type(a) if not a.is_py else self.static_type(b)
        return SV(z3.If(c, self.term(a, code), self.term(b, code)), ty)

    def sev_Compare(self, node, st):
        left = self.sev(node.left, st)
        cs = []
        for op, rn in zip(node.ops, node.comparators):
            right = self.sev(rn, st)
            rs = list(self.compare(st, op, left, right, None))
            if len(rs) != 1 or isinstance(rs[0][1], Raised):
                raise OutOfReach('spec comparison %s' % ast.unparse(node))
            cs.append(rs[0][1])
            left = right
        return self.bool_sv(self.and_(cs))

    def sev_BinOp(self, node, st):
        a, b = self.sev(node.left, st), self.sev(node.right, st)
        if isinstance(node.op, (ast.FloorDiv, ast.Mod)) and not (a.is_py and b.is_py):
            ta, tb = self.term(a, 'I'), self.term(b, 'I')
            return SV(ta / tb if isinstance(node.op, ast.FloorDiv) else ta % tb, INT)
        rs = list(self.binop(st, node.op, a, b, None))
        if len(rs) != 1 or isinstance(rs[0][1], Raised):
            raise OutOfReach('spec binop')
        return rs[0][1]

    def sev_Call(self, node, st):
        if not isinstance(node.func, ast.Name):
            raise OutOfReach('spec call form')
        name = node.func.id
        if name == 'old':
            pre = self.spec_ctx['pre']
            if pre is None:
                raise OutOfReach('old() outside a postcondition')
            st0 = pre.copy()
            st0.locals = dict(st.locals)
            if pre.ghost.get('loop_entry') or pre.ghost.get('fn_entry'):
                # loop invariant: old(x) of a local reassigned in the loop is its value at loop entry
                st0.locals.update(pre.locals)
            return self.sev(node.args[0], st0)
        if name in ('all', 'any') and len(node.args) == 1 and isinstance(node.args[0], ast.GeneratorExp):
            return self.sev_quant(name, node.args[0], st)
        if name == 'implies':
            a = self.truth(st, self.sev(node.args[0], st))
            if a is False:
                return mk(True)
            b = self.truth(st, self.sev(node.args[1], st))
            return self.bool_sv(self.or_([self.not_(a), b]))
        if name == 'len':
            v = self.sev(node.args[0], st)
            rs = list(self.bi_len(st, [v], {}, None))
            if len(rs) != 1 or isinstance(rs[0][1], Raised):
                raise OutOfReach('spec len')
            return rs[0][1]
        if name == 'isinstance':
            v = self.sev(node.args[0], st)
            c = self.sev(node.args[1], st)
            classes = c.py if isinstance(c.py, tuple) else (c,)
            classes = [k.py if isinstance(k, SV) else k for k in classes]
            return self.bool_sv(self.isinstance_(st, v, classes))
        if name == 'upper':
            return self.str_upper(self.sev(node.args[0], st))
        f = self.world.specfuncs.get(name)
        if f is None:
            raise OutOfReach('unknown spec function %s' % name)
        args = [self.sev(a, st) for a in node.args]
        return f(self, st, *args)

    def sev_quant(self, which, gen, st):
        if len(gen.generators) != 1:
            raise OutOfReach('spec quantifier with several generators')
        g = gen.generators[0]
        it = g.iter
        if not (isinstance(it, ast.Call) and isinstance(it.func, ast.Name) and it.func.id == 'range'
                and isinstance(g.target, ast.Name)):
            raise OutOfReach('spec quantifier must range over range(...)')
        if len(it.args) == 1:
            lo, hi = mk(0), self.sev(it.args[0], st)
        else:
            lo, hi = self.sev(it.args[0], st), self.sev(it.args[1], st)
        i = fresh(g.target.id, IntS)
        st1 = st.set(g.target.id, SV(i, INT))
        rng = z3.And(self.term(lo, 'I') <= i, i < self.term(hi, 'I'))
        nfacts = len(self.spec_facts) if getattr(self, 'spec_facts', None) is not None else None
        guards = [self.truth(st1, self.sev(c, st1)) for c in g.ifs]
        body = self.truth(st1, self.sev(gen.elt, st1))
        body = body if not isinstance(body, bool) else z3.BoolVal(body)
        g_all = self.and_([rng] + guards)
        if nfacts is not None:
            # definitional / typing facts produced while evaluating the body that mention the bound variable hold for
            # every value in the range: they are kept as universally quantified hypotheses
            inner = self.spec_facts[nfacts:]
            dep = [f for f in inner if _mentions(f, i)]
            if dep:
                del self.spec_facts[nfacts:]
                self.spec_facts.extend(f for f in inner if not _mentions(f, i))
                self.spec_facts.append(z3.ForAll([i], z3.Implies(rng, z3.And(*dep))))
        if which == 'all':
            return SV(z3.ForAll([i], z3.Implies(g_all, body)), BOOL)
        return SV(z3.Exists([i], z3.And(g_all, body)), BOOL)

    # ------------------------------------------------------------------ parameters
    def fresh_param(self, st, name, ty):
        """fresh symbolic value of type ty (+ typing facts)"""
        k = ty.kind
        if k == 'tuple' and not (len(ty.args) == 2 and ty.args[1] is Ellipsis) and getattr(self, 'tuples_by_value', True):
            items = []
            for j, t in enumerate(ty.args):
                st, v = self.fresh_param(st, '%s_%d' % (name, j), t)
                items.append(v)
            return st, SV(None, Ty('pytuple'), tuple(items))
        if k == 'none':
            return st, NONE_SV
        code = code_of(ty)
        t = z3.Const('p.' + name, SORTS[code])
        return self.from_heap(st, t, ty)

    # ------------------------------------------------------------------ verification of one function
    def verify(self, key):
        res = VerifyResult(key)
        c = self.world.contracts[key]
        try:
            fs = source.get_func(key)
        except (KeyError, IOError, OSError, SyntaxError) as e:
            res.status, res.reason = 'out_of_reach', 'source: %s' % e
            return res
        res.fs = fs
        try:
            self._verify(c, fs, res)
        except OutOfReach as e:
            res.status, res.reason = 'out_of_reach', str(e)
        res.inlined = sorted(self.inlined)
        res.notes = list(self.notes)
        res.fmt_templates = dict(getattr(self, 'fmt_templates', {}))
        return res

    def index_loops(self, fs):
        self.loop_index = {}
        n = [0]

        def walk(stmts):
            for s in stmts:
                if isinstance(s, (ast.FunctionDef, ast.ClassDef)):
                    continue
                if isinstance(s, (ast.For, ast.While)):
                    self.loop_index[id(s)] = n[0]
                    n[0] += 1
                for fld in ('body', 'orelse', 'finalbody'):
                    walk(getattr(s, fld, []) or [])
                for h in getattr(s, 'handlers', []) or []:
                    walk(h.body)
        walk(fs.body())

    def entry_state(self, c, fs):
        """symbolic entry state: parameters per contract signature"""
        st = State()
        st = st.assume(self.H(st, 'next') > 0)
        env = {}
        a = fs.node.args
        names = [x.arg for x in a.args]
        if a.vararg or a.kwarg:
            if a.vararg and a.vararg.arg in c.sig or a.kwarg and a.kwarg.arg in c.sig:
                pass
        for n in names:
            if n not in c.sig:
                raise OutOfReach('contract %s gives no type for parameter %s' % (c.key, n))
        for n in names:
            if c.sig[n].startswith('='):
                env[n] = mk(eval(c.sig[n][1:], {}))
                continue
            ty = parse_type(c.sig[n])
            st, v = self.fresh_param(st, n, ty)
            env[n] = v
        if a.kwarg is not None:
            env[a.kwarg.arg] = mk(PyDict({}))
        if a.vararg is not None:
            env[a.vararg.arg] = SV(None, Ty('pytuple'), ())
        closure = {}
        for n, t in c.closure.items():
            st, v = self.fresh_param(st, 'cl.' + n, parse_type(t))
            closure[n] = v
        return st, env, closure

    def module_of(self, fs):
        return importlib.import_module(fs.module)

    def _verify(self, c, fs, res):
        self.cur_contract = c
        self.top_key = c.key
        self.index_loops(fs)
        headers = source.loop_headers(fs)
        for o, sp in c.loops.items():
            if o >= len(headers):
                raise OutOfReach('contract names loop #%d but the function has %d loops' % (o, len(headers)))
        mod = self.module_of(fs)
        cls = getattr(mod, fs.cls_name, None) if fs.cls_name else None
        st, env, closure = self.entry_state(c, fs)
        fr = Frame(fs, mod, cls, closure)
        # closures of a nested function under verification: sibling closures are reachable by name
        if fs.parent_func is not None:
            self.install_sibling_closures(fs, fr)
        spec_env = dict(env)
        spec_env.update(closure)
        pre = st.copy()
        for i, r in enumerate(c.requires):
            st = st.assume(self.spec_bool(r, st, spec_env))
        pre = st.copy()
        pre.locals = dict(spec_env)
        pre.ghost = dict(pre.ghost)
        pre.ghost['fn_entry'] = True          # old(<parameter>) is the value at entry even after the body reassigns it
        self._verify_pre = pre
        if not self.feasible(st):
            raise OutOfReach('precondition of %s is unsatisfiable (vacuous contract)' % c.key)
        st1 = st.copy()
        st1.locals = dict(env)
        self.exact_self = c.exact_self
        outs = list(self.exec_block(fs.body(), st1, fr))
        res.paths = len(outs)
        self.emit_exit_vcs(c, outs, pre, spec_env, res)
        res.vcs.extend(self.vcs)
        self.vcs = []

    def install_sibling_closures(self, fs, fr):
        """nested functions defined beside the one under verification (validate()'s closures call each other)"""
        parent = fs.parent_func
        for s in parent.node.body:
            if isinstance(s, ast.FunctionDef):
                fr.closure.setdefault(s.name, mk(NestedFunc(s, Frame(parent, fr.module, fr.cls, fr.closure))))
            if isinstance(s, ast.ImportFrom):
                m = importlib.import_module(s.module)
                for a in s.names:
                    fr.closure.setdefault(a.asname or a.name, mk(getattr(m, a.name)))

    def emit_exit_vcs(self, c, outs, pre, spec_env, res):
        returns = 0
        declared = {}
        for name in c.raises:
            declared[name] = self.exc_class(name)
        for pi, (st, out) in enumerate(outs):
            kind = out[0]
            if kind in ('fall', 'return'):
                returns += 1
                result = out[1] if kind == 'return' else NONE_SV
                env = dict(spec_env)
                env['result'] = result
                for name, e in c.ensures:
                    goal = self.spec_bool(e, st, env, pre, as_goal=True)
                    self.vcs.append(VC('%s#post.%s@path%d' % (c.key, name, pi), st.pc, goal, 'post',
                                       {'clause': e, 'path': pi}))
                for ename, spec in c.raises.items():
                    if spec.get('must'):
                        # the exception MUST be raised when `must` holds: a normal return under it is a violation
                        m = self.spec_bool(spec['must'], pre, spec_env)
                        self.vcs.append(VC('%s#must_raise.%s@path%d' % (c.key, ename, pi), st.pc, z3.Not(m), 'post',
                                           {'clause': 'not (%s)' % spec['must'], 'path': pi}))
                if c.returns is not None:
                    self.emit_type_vc(c, st, result, pi)
                self.emit_frame_vcs(c, st, pre, spec_env, pi, 'return')
            elif kind == 'raise':
                exc = out[1]
                match = [n for n, k in declared.items() if issubclass(exc.cls, k)]
                if not match:
                    # undeclared exception: the path must be infeasible
                    self.vcs.append(VC('%s#raises.undeclared.%s@path%d' % (c.key, exc.cls.__name__, pi), st.pc,
                                       z3.BoolVal(False), 'raises',
                                       {'clause': 'no %s escapes' % exc.cls.__name__, 'path': pi,
                                        'line': getattr(exc.node, 'lineno', None)}))
                    continue
                # most specific declared class
                match.sort(key=lambda n: len(declared[n].__mro__), reverse=True)
                ename = match[0]
                spec = c.raises[ename]
                env = dict(spec_env)
                if spec.get('when'):
                    goal = self.spec_bool(spec['when'], pre, spec_env, as_goal=True)
                    self.vcs.append(VC('%s#raises.%s.when@path%d' % (c.key, ename, pi), st.pc, goal, 'raises',
                                       {'clause': spec['when'], 'path': pi}))
                for name, e in spec.get('ensures', ()):
                    goal = self.spec_bool(e, st, env, pre, as_goal=True)
                    self.vcs.append(VC('%s#raises.%s.%s@path%d' % (c.key, ename, name, pi), st.pc, goal, 'raises',
                                       {'clause': e, 'path': pi}))
                if spec.get('frame', True):
                    self.emit_frame_vcs(c, st, pre, spec_env, pi, 'raise.' + ename, spec.get('modifies', None))
            else:
                raise OutOfReach('%s escapes the function body' % kind)
        # canary: some normal or exceptional path must exist at all
        if not outs:
            raise OutOfReach('no feasible path through %s (vacuous)' % c.key)

    def emit_type_vc(self, c, st, result, pi):
        ty = parse_type(c.returns)
        rt = self.static_type(result)
        if ty.kind == 'any':
            return
        if ty.kind == 'none':
            if not (result.is_py and result.py is None):
                self.vcs.append(VC('%s#returns.none@path%d' % (c.key, pi), st.pc, self.z(self.is_none(result)), 'post'))
            return
        if result.is_py and result.py is None:
            if ty.kind != 'opt':
                self.vcs.append(VC('%s#returns.type@path%d' % (c.key, pi), st.pc, z3.BoolVal(False), 'post',
                                   {'clause': 'result is %r' % ty}))
            return

    def z(self, c):
        return z3.BoolVal(c) if isinstance(c, bool) else c

    def exc_class(self, name):
        import builtins
        if hasattr(builtins, name):
            return getattr(builtins, name)
        for modname in ('hl7apy.exceptions', 'hl7apy.mllp', 'socket', 'decimal'):
            m = importlib.import_module(modname)
            if hasattr(m, name):
                return getattr(m, name)
        if name in self.world.classes:
            return self.world.classes[name]
        raise KeyError('exception class %s' % name)

    # ------------------------------------------------------------------ frames (modifies clauses)
    def mod_locations(self, mods, pre, env):
        """parse modifies strings against the PRE state -> dict heapkey -> list of address terms / 'all'"""
        out = {}

        def add(key, addr):
            out.setdefault(key, [])
            if out[key] != 'all':
                out[key].append(addr)
        for m in mods:
            m = m.strip()
            if m == 'fresh':
                continue
            try:
                self._mod_location(m, pre, env, out, add)
            except NoneBase:
                continue
        return out

    def _mod_location(self, m, pre, env, out, add):
        if ' ? ' in m:
            # '<condition> ? <location>': dropped when the condition is concretely false in the pre-state
            # (a symbolic condition keeps the location: permissive, stated in DESIGN.md)
            cnd, m = m.split(' ? ', 1)
            c = self.truth(pre, self.spec_eval(cnd, pre, env))
            if c is False:
                return
            if c is not True and not self.feasible(pre.assume(c)):
                return      # the condition cannot hold in the pre-state
            m = m.strip()
        if True:
            if m.startswith('global '):
                out['g.' + m[7:].strip()] = 'all'
                return
            if m.endswith('.*'):
                # every schema field of the object
                obj = self.spec_eval(m[:-2], pre, env)
                cname = (obj.ty.args[0] if obj.ty.kind == 'obj' else obj.ty.args[0].args[0])
                for k in self.world.schema:
                    attr = k.split('.')[-1]
                    if self.world.field_type(cname, attr) is not None:
                        add(self.world.field_key(cname, attr), obj.term)
                return
            if m.endswith('[]'):
                lst = self.spec_eval(m[:-2], pre, env)
                lt = lst.ty.args[0] if lst.ty.kind == 'opt' else lst.ty
                add('La.' + self.seq_code(lt), lst.term)
                add('Ll', lst.term)
                return
            if m.endswith('{}'):
                d = self.spec_eval(m[:-2], pre, env)
                dt = d.ty.args[0] if d.ty.kind == 'opt' else d.ty
                add('Dd', d.term)
                add('Dv.' + code_of(dt.args[0]), d.term)
                return
            if m.startswith('field '):
                # 'field name of *' : the whole field array may change (used sparingly)
                out['f.' + m[6:].strip()] = 'all'
                return
            node = ast.parse(m, mode='eval').body
            if not isinstance(node, ast.Attribute):
                raise OutOfReach('modifies clause %r' % m)
            obj = self.spec_eval(ast.unparse(node.value), pre, env)
            ot = obj.ty.args[0] if obj.ty.kind == 'opt' else obj.ty
            add(self.world.field_key(ot.args[0], node.attr), obj.term)

    def emit_frame_vcs(self, c, st, pre, spec_env, pi, tag, mods=None):
        mods = c.modifies if mods is None else mods
        if mods is None:
            return
        locs = self.mod_locations(mods, pre, spec_env)
        next0 = self.H(pre, 'next')
        keys = set(st.heap) | set(pre.heap)
        if not any(k.startswith('g.') for k in locs) and not tag.startswith('loop'):
            # C19: no module-level variable is rebound on this path (the heap terms of the g.* keys at the exit against
            # those at entry; the objects they refer to are covered by the per-array frames below)
            gk = sorted(k for k in keys if k.startswith('g.'))
            goal = z3.And(*[self.H(st, k) == self.H(pre, k) for k in gk]) if gk else z3.BoolVal(True)
            self.vcs.append(VC('%s#frame.module_globals_untouched@path%d.%s' % (c.key, pi, tag), st.pc, goal, 'frame_global',
                               {'clause': 'no module-level variable rebound (%d read on this path)' % len(gk), 'path': pi}))
        for key in sorted(keys):
            if key in ('next', 'cls'):
                continue
            new, old = st.heap.get(key), pre.heap.get(key)
            if new is None or old is None:
                if new is None:
                    continue
                old = self.H(pre, key)
            if new.eq(old):
                continue
            allowed = locs.get(key, [])
            if allowed == 'all':
                continue
            if key.startswith('g.'):
                self.vcs.append(VC('%s#modifies.%s@path%d.%s' % (c.key, key, pi, tag), st.pc, new == old, 'frame',
                                   {'clause': 'global %s unchanged' % key[2:], 'path': pi}))
                continue
            a = fresh('a', IntS)
            cond = z3.And(a > 0, a < next0, *[a != x for x in allowed])
            goal = new[a] == old[a]
            if key.startswith('La.'):
                # semantic frame: the items within the (old) length; cells beyond the length are unobservable
                kk = fresh('k', IntS)
                goal = z3.ForAll([kk], z3.Implies(z3.And(0 <= kk, kk < self.H(pre, 'Ll')[a]), new[a][kk] == old[a][kk]))
            elif key.startswith('Dv.'):
                ks = fresh('key', StrS)
                goal = z3.ForAll([ks], z3.Implies(self.H(pre, 'Dd')[a][ks], new[a][ks] == old[a][ks]))
            elif key == 'Dd':
                ks = fresh('key', StrS)
                goal = z3.ForAll([ks], new[a][ks] == old[a][ks])
            self.vcs.append(VC('%s#modifies.%s@path%d.%s' % (c.key, key, pi, tag), list(st.pc) + [cond],
                               goal, 'frame',
                               {'clause': 'only %s of %s may change' % (', '.join(str(x) for x in allowed) or 'nothing', key),
                                'path': pi}))

    # ------------------------------------------------------------------ applying a callee contract
    def apply_contract(self, st, c, fn, args, kwargs, fr):
        fs = self.resolve_func(fn)
        if fs is None:
            raise OutOfReach('no source for %s' % c.key)
        frc = self.frame_for(fs, fn)
        env, err = self.bind_params(fs, fn, args, kwargs, st, frc)
        if env is None:
            yield self.raise_(st, TypeError, err)
            return
        for r in self.apply_contract_env(st, c, env):
            yield r

    def box_record(self, st, sv, cname):
        """an engine-level tuple used where a structure-table record is expected: a fresh record with those fields"""
        fields = self.world.tuple_records[cname]
        items = sv.py
        st, a = self.alloc(st, cname) if cname in self.world.class_ids else (st, None)
        if a is None:
            self.world.class_ids[cname] = len(self.world.class_ids) + 1
            st, a = self.alloc(st, cname)
        for f, x in zip(fields, items):
            fty = self.world.field_type(cname, f)
            if x.is_py and isinstance(x.py, tuple) and fty.kind == 'tuple':
                st, x = self.new_list(st, list(x.py), self.seq_elem_type(fty), kind='tuple') if x.py else \
                    self.new_list(st, [], self.seq_elem_type(fty), kind='tuple')
            st = self.write_field(st, SV(a, ObjT(cname)), f, x)
        if self.world.field_type(cname, '_len') is not None:
            st = self.write_field(st, SV(a, ObjT(cname)), '_len', mk(len(items)))
        return st, SV(a, ObjT(cname))

    def apply_contract_env(self, st, c, env, result_override=None):
        # engine-level tuples given where the signature names a structure-table record are materialised
        recs = getattr(self.world, 'tuple_records', {})
        for n, v in list(env.items()):
            if isinstance(v, SV) and v.is_py and isinstance(v.py, tuple) and n in c.sig:
                t = parse_type(c.sig[n]) if not c.sig[n].startswith('=') else None
                t = t.args[0] if t is not None and t.kind == 'opt' else t
                if t is not None and t.kind == 'obj' and t.args[0] in recs:
                    env = dict(env)
                    st, env[n] = self.box_record(st, v, t.args[0])
        pre = st
        if not c.verify:
            # an assumed (never verified) contract is being relied on: recorded, so that the evidence of every property whose
            # functions use it lists it
            used = self.__dict__.setdefault('assumed_used', set())
            used.add(c.key)
        # 1. precondition obligations
        for i, r in enumerate(c.requires):
            goal = self.spec_bool(r, pre, env, as_goal=True)
            self.vcs.append(VC('%s#call.%s.requires%d@%s' % (self.top_key, c.key, i, fresh_name('site')), pre.pc, goal,
                               'callee_pre', {'clause': r, 'callee': c.key}))
        # 2. normal outcome
        post = self.havoc(pre, c, env, c.modifies)
        result = result_override
        if result is None:
            if c.returns is None or c.returns == 'none':
                result = NONE_SV
            else:
                post, result = self.fresh_param_heap(post, fresh_name('ret'), parse_type(c.returns))
        env2 = dict(env)
        env2['result'] = result
        ok = True
        for name, e in c.ensures:
            post = post.assume(self.spec_bool(e, post, env2, pre))
            if os.environ.get('PYVC_DEBUG_ENSURES') and not self.feasible(post):
                print('DEBUG: ensures', name, 'of', c.key, 'makes the call infeasible:', str(post.pc[-1])[:300])
        if c.ensures and not self.feasible(post) and self.feasible(pre):
            # vacuity guard: the callee's postcondition cannot hold at this reachable call (a clause that evaluates to
            # false for these argument types, or contradicts what the caller knows): the normal-return path would vanish
            # together with every obligation after it
            raise OutOfReach('the postcondition of %s cannot hold at a reachable call site (contradictory clause)' % c.key)
        for ename, spec in c.raises.items():
            if spec.get('must'):
                post = post.assume(z3.Not(self.spec_bool(spec['must'], pre, env)))
        any_outcome = False
        if self.feasible(post):
            any_outcome = True
            yield post, result
        # 3. exceptional outcomes
        for ename, spec in c.raises.items():
            mods = spec.get('modifies', c.modifies if spec.get('frame', True) else None)
            ex_st = self.havoc(pre, c, env, mods) if mods is None or mods else pre
            if spec.get('when'):
                ex_st = ex_st.assume(self.spec_bool(spec['when'], pre, env))
            for name, e in spec.get('ensures', ()):
                ex_st = ex_st.assume(self.spec_bool(e, ex_st, env, pre))
            if self.feasible(ex_st):
                any_outcome = True
                yield ex_st, Raised(ExcVal(self.exc_class(ename), []))
        if not any_outcome and self.feasible(pre):
            # vacuity guard: a reachable call after which nothing is possible means the callee's contract contradicts
            # itself (or the caller's knowledge) - the path would silently disappear together with its obligations
            raise OutOfReach('the contract of %s leaves no outcome at a reachable call site (contradictory clauses)' % c.key)

    def fresh_param_heap(self, st, name, ty):
        old = getattr(self, 'tuples_by_value', True)
        self.tuples_by_value = False
        try:
            return self.fresh_param(st, name, ty)
        finally:
            self.tuples_by_value = old

    def havoc(self, st, c, env, mods):
        """post-state of a call: locations in `mods` (and everything fresh) arbitrary, the rest unchanged"""
        if mods is not None and len(mods) == 0 and not c.allocates:
            return st
        if mods is None:
            # unconstrained callee: havoc the whole heap
            st1 = st.copy()
            for key in list(st1.heap):
                if key == 'next':
                    n = fresh('next', IntS)
                    st1.pc.append(n >= st.heap['next'])
                    st1.heap[key] = n
                elif key != 'cls':
                    st1.heap[key] = fresh(key, st.heap[key].sort())
            for key in list(st1.heap):
                if key not in ('next', 'cls'):
                    st1.pc.extend(self.closed_axioms(key, st1.heap[key], st1.heap.get('next', self.H(st, 'next'))))
            st1.ghost['havoc_all'] = True
            return st1
        locs = self.mod_locations(mods, st, env)
        st1 = st.copy()
        next0 = self.H(st, 'next')
        if c.allocates:
            n = fresh('next', IntS)
            st1.pc.append(n >= next0)
            st1.heap['next'] = n
            cls0 = self.H(st, 'cls')
            cls1 = fresh('cls', cls0.sort())
            a = fresh('a', IntS)
            st1.pc.append(z3.ForAll([a], z3.Implies(z3.And(a > 0, a < next0), cls1[a] == cls0[a])))
            st1.heap['cls'] = cls1
        touched = set(locs)
        if c.allocates is True:
            touched |= set(k for k in st.heap if k not in ('next', 'cls') and not k.startswith('g.'))
        elif c.allocates:
            # the contract names the heap arrays in which its fresh objects live
            for k in c.allocates:
                self.H(st, k)
                touched.add(k)
        for key in sorted(touched):
            old = self.H(st, key)
            allowed = locs.get(key, [])
            if key.startswith('g.'):
                st1.heap[key] = fresh(key, old.sort())
                st1.pc.extend(self.closed_axioms(key, st1.heap[key], st1.heap.get('next', next0)))
                continue
            if allowed == 'all':
                st1.heap[key] = fresh(key, old.sort())
                st1.pc.extend(self.closed_axioms(key, st1.heap[key], st1.heap.get('next', next0)))
                continue
            fresh_objs_here = c.allocates is True or (c.allocates and key in c.allocates)
            if not fresh_objs_here:
                # no fresh object lives in this array: exactly the named locations change
                new = old
                for x in allowed:
                    new = z3.Store(new, x, fresh(key + '_v', old.sort().range()))
                st1.heap[key] = new
            else:
                new = fresh(key, old.sort())
                a = fresh('a', IntS)
                st1.pc.append(z3.ForAll([a], z3.Implies(z3.And(a > 0, a < next0, *[a != x for x in allowed]),
                                                       new[a] == old[a])))
                st1.pc.extend(self.closed_axioms(key, new, st1.heap['next']))
                st1.heap[key] = new
        return st1

    def apply_ctor_contract(self, st, c, cls, args, kwargs, fr):
        init = cls.__init__
        fs = self.resolve_func(init)
        st, a = self.alloc(st, cls.__name__)
        obj = SV(a, ObjT(cls.__name__))
        frc = self.frame_for(fs, init)
        env, err = self.bind_params(fs, init, [obj] + args, kwargs, st, frc)
        if env is None:
            yield self.raise_(st, TypeError, err)
            return
        for st1, r in self.apply_contract_env(st, c, env, result_override=obj):
            yield st1, r

    # ------------------------------------------------------------------ loops
    def written_in(self, stmts):
        """syntactic over-approximation of the local names assigned in a block"""
        names = set()
        for s in stmts:
            for n in ast.walk(s):
                if isinstance(n, ast.Name) and isinstance(n.ctx, (ast.Store, ast.Del)):
                    names.add(n.id)
                elif isinstance(n, ast.ExceptHandler) and n.name:
                    names.add(n.name)
        return names

    def loop_havoc(self, st, s, spec, pre_loop):
        """havoc everything the loop body may write: assigned locals (typed by spec['vars'] or their current type)
        and the heap (entirely, unless spec['heap'] lists the heap keys touched)"""
        st1 = st.copy()
        for n in sorted(self.written_in(s.body)):
            if n in spec.get('vars', {}):
                ty = parse_type(spec['vars'][n])
                st1, v = self.fresh_param_heap(st1, fresh_name('lv.' + n), ty)
                st1.locals[n] = v
            elif n in st1.locals:
                cur = st1.locals[n]
                ty = self.static_type(cur)
                if ty.kind in ('none', 'pyobj', 'pytuple'):
                    raise OutOfReach('loop-modified local %s needs a type in the loop spec (vars)' % n)
                st1, v = self.fresh_param_heap(st1, fresh_name('lv.' + n), ty)
                st1.locals[n] = v
            # names first assigned inside the loop are simply unbound before
        if spec.get('modifies') is not None:
            # loop frame: only the named locations (evaluated at loop entry) and fresh objects may change; the frame is
            # an obligation of every iteration (cut_loop emits it), so the havoc may rely on it
            pseudo = _LoopFrame(spec.get('allocates'))
            st2 = self.havoc(st1, pseudo, self.inv_env(st, {}), list(spec['modifies']))
            if st2 is st1:
                st2 = st1.copy()
            return st2
        heapkeys = spec.get('heap')
        if heapkeys is None:
            heapkeys = [k for k in st1.heap if k != 'cls']
            if self.body_has_effects(s.body):
                pass
            else:
                heapkeys = []
        for k in heapkeys:
            if k == 'next':
                n = fresh('next', IntS)
                st1.pc.append(n >= st.heap['next'])
                st1.heap[k] = n
            elif k == 'cls':
                continue
            else:
                st1.heap[k] = fresh(k, self.H(st, k).sort())
        for k in heapkeys:
            if k not in ('next', 'cls'):
                st1.pc.extend(self.closed_axioms(k, st1.heap[k], st1.heap.get('next', self.H(st, 'next'))))
        if 'next' in heapkeys or heapkeys:
            # class table of old objects is stable
            if 'next' in heapkeys:
                cls0 = self.H(st, 'cls')
                cls1 = fresh('cls', cls0.sort())
                a = fresh('a', IntS)
                st1.pc.append(z3.ForAll([a], z3.Implies(z3.And(a > 0, a < st.heap['next']), cls1[a] == cls0[a])))
                st1.heap['cls'] = cls1
        return st1

    def body_has_effects(self, stmts):
        for s in stmts:
            for n in ast.walk(s):
                if isinstance(n, (ast.Call, ast.Attribute, ast.Subscript)) and isinstance(getattr(n, 'ctx', None), (ast.Store, ast.Del)):
                    return True
                if isinstance(n, ast.Call):
                    return True
        return False

    def inv_env(self, st, extra):
        env = dict(st.locals)
        env.update(getattr(self, '_spec_params', {}))
        env.update(extra)
        return env

    def cut_loop(self, s, st, fr, seq, spec, ordinal):
        """for <target> in <seq>: ... cut at the invariant.  Ghost `_i` = number of completed iterations."""
        from .expr import EnumV, RangeV
        c = self.cur_contract
        # iteration source: (length term, item(i) -> SV)
        st, n, item = self.iter_protocol(st, seq, fr)
        pre_fn = getattr(self, '_pre_state', None)
        invs = spec['inv']
        # 1. initialisation
        env0 = self.inv_env(st, {'_i': mk(0), '_n': SV(n, INT)})
        for name, e in invs:
            self.vcs.append(VC('%s#loop%d.init.%s' % (c.key, ordinal, name), st.pc,
                               self.spec_bool(e, st, env0, self.loop_pre(st), as_goal=True), 'loop_init', {'clause': e}))
        # 2. arbitrary iteration
        sth = self.loop_havoc(st, s, spec, st)
        i = fresh('_i', IntS)
        envh = self.inv_env(sth, {'_i': SV(i, INT), '_n': SV(n, INT)})
        sti = sth.assume(z3.And(0 <= i, i <= n))
        for name, e in invs:
            sti = sti.assume(self.spec_bool(e, sti, envh, self.loop_pre(st)))
        if invs and not self.feasible(sti) and self.feasible(sth):
            # vacuity guard: an invariant that nothing satisfies would make the loop body, the loop exit and everything
            # after the loop disappear together with their obligations
            raise OutOfReach('the invariants of loop #%d are unsatisfiable at an arbitrary iteration' % ordinal)
        # 2a. body from an arbitrary iteration
        stb = sti.assume(i < n)
        stb, x = item(stb, i)
        if self.feasible(stb):
            for stb1, out in self.assign(s.target, stb, x, fr):
                if out[0] != 'fall':
                    yield stb1, out
                    continue
                for st2, out2 in self.exec_block(s.body, stb1, fr):
                    if out2[0] in ('fall', 'continue'):
                        env2 = self.inv_env(st2, {'_i': SV(i + 1, INT), '_n': SV(n, INT)})
                        if spec.get('modifies') is not None:
                            self._loop_frame_n = getattr(self, '_loop_frame_n', 0) + 1
                            self.emit_frame_vcs(c, st2, st, self.inv_env(st, {}), self._loop_frame_n, 'loop%d' % ordinal,
                                                mods=list(spec['modifies']))
                        for name, e in invs:
                            self.vcs.append(VC('%s#loop%d.preserve.%s@%s' % (c.key, ordinal, name, fresh_name('p')), st2.pc,
                                               self.spec_bool(e, st2, env2, self.loop_pre(st), as_goal=True), 'loop_preserve',
                                               {'clause': e}))
                    elif out2[0] == 'break':
                        st3 = st2.copy()
                        st3.ghost['loop%d_break_i' % ordinal] = i
                        yield st3, FALL
                    else:
                        yield st2, out2
        # 2b. exit
        ste = sti.assume(i == n)
        if self.feasible(ste):
            for r in self.exec_block(s.orelse, ste, fr):
                yield r

    def loop_pre(self, st):
        p = st.copy()
        p.ghost = dict(p.ghost)
        p.ghost['loop_entry'] = True
        return p

    def iter_protocol(self, st, seq, fr):
        from .expr import EnumV, RangeV
        if seq.is_py and isinstance(seq.py, EnumV):
            st, n, item = self.iter_protocol(st, seq.py.seq, fr)

            def it(st, i, item=item):
                st, x = item(st, i)
                return st, SV(None, Ty('pytuple'), (SV(i, INT), x))
            return st, n, it
        if seq.is_py and isinstance(seq.py, RangeV):
            lo, hi = self.term(seq.py.lo, 'I'), self.term(seq.py.hi, 'I')
            n = z3.If(hi - lo < 0, 0, hi - lo)
            return st, n, (lambda st, i: (st, SV(lo + i, INT)))
        if seq.is_py:
            items = self.concrete_items(st, seq)
            if items is None:
                raise OutOfReach('iteration over %r' % (seq.py,))
            raise OutOfReach('invariant loop over a concrete sequence: remove the invariant (it is unrolled)')
        if seq.ty.kind == 'obj':
            st, seq = self.iter_source(st, seq, fr)
        if seq.ty.kind in ('list', 'tuple'):
            n = self.H(st, 'Ll')[seq.term]
            code = self.seq_code(seq.ty)
            elemty = self.seq_elem_type(seq.ty)
            la_key = 'La.' + code
            arr0 = self.H(st, la_key)[seq.term]   # snapshot: the loop must not mutate the sequence it iterates

            def it(st, i):
                if code == 'V' and code_of(elemty) != 'V':
                    return self.unbox(st, arr0[i], elemty)
                return self.from_heap(st, arr0[i], elemty)
            return st, n, it
        raise OutOfReach('iteration over %r' % (seq,))

    def cut_while(self, s, st, fr, spec, ordinal):
        c = self.cur_contract
        invs = spec['inv']
        env0 = self.inv_env(st, {})
        for name, e in invs:
            self.vcs.append(VC('%s#loop%d.init.%s' % (c.key, ordinal, name), st.pc,
                               self.spec_bool(e, st, env0, self.loop_pre(st), as_goal=True), 'loop_init', {'clause': e}))
        sth = self.loop_havoc(st, s, spec, st)
        envh = self.inv_env(sth, {})
        sti = sth
        for name, e in invs:
            sti = sti.assume(self.spec_bool(e, sti, envh, self.loop_pre(st)))
        for st1, v in self.ev(s.test, sti, fr):
            if isinstance(v, Raised):
                yield st1, ('raise', v.exc)
                continue
            for st2, cnd in self.cond(st1, v, fr):
                if isinstance(cnd, Raised):
                    yield st2, ('raise', cnd.exc)
                    continue
                for st3, b in self.branch(st2, cnd):
                    if b:
                        for st4, out in self.exec_block(s.body, st3, fr):
                            if out[0] in ('fall', 'continue'):
                                env4 = self.inv_env(st4, {})
                                if spec.get('modifies') is not None:
                                    self._loop_frame_n = getattr(self, '_loop_frame_n', 0) + 1
                                    self.emit_frame_vcs(c, st4, st, self.inv_env(st, {}), self._loop_frame_n, 'loop%d' % ordinal,
                                                        mods=list(spec['modifies']))
                                for name, e in invs:
                                    self.vcs.append(VC('%s#loop%d.preserve.%s@%s' % (c.key, ordinal, name, fresh_name('p')),
                                                       st4.pc, self.spec_bool(e, st4, env4, self.loop_pre(st), as_goal=True),
                                                       'loop_preserve', {'clause': e}))
                            elif out[0] == 'break':
                                yield st4, FALL
                            else:
                                yield st4, out
                    else:
                        for r in self.exec_block(s.orelse, st3, fr):
                            yield r

    # nested functions (closures) called by name ---------------------------------------------------
    def call(self, st, fn, args, kwargs, fr, node=None):
        if fn.is_py and isinstance(fn.py, NestedFunc):
            return self.call_nested(st, fn.py, args, kwargs, fr)
        return CallMixin.call(self, st, fn, args, kwargs, fr, node)

    def call_nested(self, st, nf, args, kwargs, fr):
        parent = nf.fr.fs
        key = '%s:%s.<locals>.%s' % (parent.module, parent.qual, nf.node.name)
        c = self.world.contracts.get(key)
        fs = source.get_func(key)
        frc = Frame(fs, nf.fr.module, nf.fr.cls, dict(nf.fr.closure))
        # free variables: the defining activation's locals are visible (read-only use)
        for k, v in st.locals.items():
            frc.closure.setdefault(k, v)
        fake = _FakeFn(fs)
        env, err = self.bind_params(fs, fake, args, kwargs, st, frc)
        if env is None:
            return [self.raise_(st, TypeError, err)]
        if c is not None and not c.inline:
            env = dict(env)
            for n in c.closure:
                env[n] = frc.closure[n]
            return self.apply_contract_env(st, c, env)
        if len(self.call_stack) >= self.MAX_INLINE or any(k == key for k, _ in self.call_stack):
            raise OutOfReach('recursive / deep inlining of %s' % key)
        self.inlined.add(key)
        return self._inline(st, fs, frc, env, key)


class _FakeFn(object):
    def __init__(self, fs):
        self.__module__ = fs.module
        self.__qualname__ = fs.qual
        self.__closure__ = None
