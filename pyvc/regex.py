"""Regular expressions: the pattern string is taken from the real call site and parsed with CPython's own
parser (re._parser); it is translated to an SMT-LIB regular expression (str.in_re).  Supported: literals,
classes, categories \\d \\s \\S \\w, repeats, groups, alternation, ^ at the start, $ at the end, IGNORECASE.
Look-around assertions are NOT translated (handled by the window/automata back end)."""
import re
import sys
import unicodedata
import z3

try:
    import re._parser as sre_parse
    import re._constants as sre_c
except ImportError:       # python < 3.11
    import sre_parse
    import sre_constants as sre_c

from .engine import OutOfReach, SV, mk, StrS, IntS, BoolS
from .tys import STR, BOOL, INT, Ty

MAXCP = 0x2FFFF       # SMT-LIB unicode strings: code points up to 0x2FFFF (ASSUMPTION: no higher code points)

_ws = None
_digits = None


def _ranges(pred):
    out = []
    start = None
    for cp in range(MAXCP + 1):
        if pred(chr(cp)):
            if start is None:
                start = cp
        elif start is not None:
            out.append((start, cp - 1))
            start = None
    if start is not None:
        out.append((start, MAXCP))
    return out


def ws_ranges():
    global _ws
    if _ws is None:
        _ws = _ranges(lambda c: c.isspace())
    return _ws


def digit_ranges():
    global _digits
    if _digits is None:
        _digits = _ranges(lambda c: unicodedata.category(c) == 'Nd')
    return _digits


def ch(cp):
    return z3.StringVal(chr(cp))


def rng(a, b):
    if a == b:
        return z3.Re(ch(a))
    return z3.Range(ch(a), ch(b))


def union(rs):
    rs = list(rs)
    if not rs:
        return z3.Empty(z3.ReSort(StrS))
    if len(rs) == 1:
        return rs[0]
    return z3.Union(*rs)


ANYCHAR = z3.Range(ch(0), ch(MAXCP))


def complement_ranges(ranges):
    out = []
    prev = 0
    for a, b in sorted(ranges):
        if a > prev:
            out.append((prev, a - 1))
        prev = max(prev, b + 1)
    if prev <= MAXCP:
        out.append((prev, MAXCP))
    return out


def class_ranges(items, ignorecase):
    """ranges for a character class body (list of (op, arg))"""
    ranges = []
    negate = False
    for op, arg in items:
        if op is sre_c.NEGATE:
            negate = True
        elif op is sre_c.LITERAL:
            ranges.append((arg, arg))
        elif op is sre_c.RANGE:
            ranges.append((arg[0], arg[1]))
        elif op is sre_c.CATEGORY:
            ranges.extend(category_ranges(arg))
        else:
            raise OutOfReach('regex class item %s' % (op,))
    if ignorecase:
        extra = []
        for a, b in ranges:
            if b - a > 2000:
                continue
            for cp in range(a, b + 1):
                c = chr(cp)
                for v in (c.lower(), c.upper()):
                    if len(v) == 1 and ord(v) != cp:
                        extra.append((ord(v), ord(v)))
        ranges.extend(extra)
    if negate:
        ranges = complement_ranges(ranges)
    return ranges


def category_ranges(cat):
    if cat is sre_c.CATEGORY_DIGIT:
        return digit_ranges()
    if cat is sre_c.CATEGORY_SPACE:
        return ws_ranges()
    if cat is sre_c.CATEGORY_NOT_SPACE:
        return complement_ranges(ws_ranges())
    if cat is sre_c.CATEGORY_NOT_DIGIT:
        return complement_ranges(digit_ranges())
    raise OutOfReach('regex category %s' % (cat,))


class Compiled(object):
    """result of translating a pattern: z3 regex for the whole pattern, anchoring, fixed-offset groups"""

    def __init__(self, pattern, flags=0):
        self.pattern = pattern
        self.flags = flags
        self.ignorecase = bool(flags & re.IGNORECASE)
        tree = sre_parse.parse(pattern, flags)
        items = list(tree)
        self.anchored_start = bool(items) and items[0][0] is sre_c.AT and items[0][1] in (sre_c.AT_BEGINNING, sre_c.AT_BEGINNING_STRING)
        if self.anchored_start:
            items = items[1:]
        self.anchored_end = bool(items) and items[-1][0] is sre_c.AT and items[-1][1] in (sre_c.AT_END, sre_c.AT_END_STRING)
        self.dollar = bool(items) and items[-1][0] is sre_c.AT and items[-1][1] is sre_c.AT_END
        if self.anchored_end:
            items = items[:-1]
        self.groups = {}          # group index -> (offset, width) when fixed
        self.groupnames = dict(tree.state.groupdict)
        self.tail_group_width = None
        self.tail_re = None
        self.prefix_nullable = False
        if items and items[-1][0] is sre_c.SUBPATTERN and items[-1][1][0] == 1:
            _r, _w = self.seq(list(items[-1][1][3]), None)
            self.tail_group_width = _w
            self.tail_re = _r
            self.groups = {}
            # everything before the tail group can match the empty string (e.g. \d*): an unanchored search then
            # succeeds exactly when the tail group matches at the end of the subject
            self.prefix_nullable = all(op in (sre_c.MAX_REPEAT, sre_c.MIN_REPEAT) and arg[0] == 0 for op, arg in items[:-1])
        self.re, self.width = self.seq(items, 0)

    def seq(self, items, offset):
        """returns (z3 regex, fixed width or None); records fixed-offset groups"""
        parts = []
        width = 0
        for op, arg in items:
            r, w = self.atom(op, arg, offset if width is not None else None)
            parts.append(r)
            if width is not None and w is not None:
                width += w
                offset = offset + w if offset is not None else None
            else:
                width = None
                offset = None
        if not parts:
            return z3.Re(z3.StringVal('')), 0
        return (z3.Concat(*parts) if len(parts) > 1 else parts[0]), width

    def atom(self, op, arg, offset):
        if op is sre_c.LITERAL:
            if self.ignorecase:
                c = chr(arg)
                alts = {arg}
                for v in (c.lower(), c.upper()):
                    if len(v) == 1:
                        alts.add(ord(v))
                return union(z3.Re(ch(a)) for a in sorted(alts)), 1
            return z3.Re(ch(arg)), 1
        if op is sre_c.NOT_LITERAL:
            return union(rng(a, b) for a, b in complement_ranges([(arg, arg)])), 1
        if op is sre_c.ANY:
            return union(rng(a, b) for a, b in complement_ranges([(10, 10)])), 1
        if op is sre_c.IN:
            return union(rng(a, b) for a, b in class_ranges(arg, self.ignorecase)), 1
        if op is sre_c.CATEGORY:
            return union(rng(a, b) for a, b in category_ranges(arg)), 1
        if op in (sre_c.MAX_REPEAT, sre_c.MIN_REPEAT):
            lo, hi, sub = arg
            r, w = self.seq(list(sub), None)
            if hi is sre_c.MAXREPEAT:
                if lo == 0:
                    return z3.Star(r), None
                if lo == 1:
                    return z3.Plus(r), None
                return z3.Concat(*([r] * lo + [z3.Star(r)])), None
            if lo == hi:
                if lo == 0:
                    return z3.Re(z3.StringVal('')), 0
                return (z3.Concat(*([r] * lo)) if lo > 1 else r), (w * lo if w is not None else None)
            return z3.Loop(r, lo, hi), None
        if op is sre_c.SUBPATTERN:
            gid, add, dele, sub = arg
            r, w = self.seq(list(sub), offset)
            if gid is not None and offset is not None and w is not None:
                self.groups[gid] = (offset, w)
            return r, w
        if op is sre_c.BRANCH:
            _, alts = arg
            rs = [self.seq(list(a), None) for a in alts]
            ws = set(w for _, w in rs)
            return union(r for r, _ in rs), (ws.pop() if len(ws) == 1 else None)
        if op is sre_c.AT:
            raise OutOfReach('regex anchor inside pattern')
        raise OutOfReach('regex construct %s' % (op,))

    # ------------------------------------------------------------------ conditions
    def match_cond(self, s):
        """re.match(p, s) is not None"""
        r = self.re
        if not self.anchored_end:
            r = z3.Concat(r, z3.Star(ANYCHAR))
        elif self.dollar:
            # $ also matches before a trailing newline
            r = z3.Concat(r, z3.Option(z3.Re(z3.StringVal('\n'))))
        return z3.InRe(s, r)

    def tail_search_parts(self, s):
        """(matches at the very end, matches before one trailing newline) for an end-anchored search whose only
        constraint is its fixed-width tail group"""
        w = self.tail_group_width
        n = z3.Length(s)
        at_end = z3.And(n >= w, z3.InRe(z3.SubString(s, n - w, w), self.tail_re))
        before_nl = z3.And(z3.BoolVal(bool(self.dollar)), n >= w + 1, z3.SubString(s, n - 1, 1) == z3.StringVal('\n'),
                           z3.InRe(z3.SubString(s, n - 1 - w, w), self.tail_re))
        return at_end, before_nl

    def search_cond(self, s):
        if self.anchored_end and not self.anchored_start and self.tail_group_width and self.prefix_nullable:
            a, b = self.tail_search_parts(s)
            return z3.Or(a, b)
        r = self.re
        if not self.anchored_start:
            r = z3.Concat(z3.Star(ANYCHAR), r)
        if not self.anchored_end:
            r = z3.Concat(r, z3.Star(ANYCHAR))
        elif self.dollar:
            r = z3.Concat(r, z3.Option(z3.Re(z3.StringVal('\n'))))
        return z3.InRe(s, r)


class MatchV(object):
    """a successful re.match result with fixed-offset groups"""

    def __init__(self, comp, s):
        self.comp = comp
        self.s = s

    def group(self, key):
        if isinstance(key, str):
            key = self.comp.groupnames[key]
        if key not in self.comp.groups:
            raise OutOfReach('regex group %r has no fixed offset' % (key,))
        off, w = self.comp.groups[key]
        return SV(z3.SubString(self.s, off, w), STR)

    def match_obj_attr(self, ex, st, attr):
        from .calls import EngineCallable
        if attr == 'group':
            def call(ex, st, args, kwargs, fr):
                if len(args) != 1 or not args[0].is_py:
                    raise OutOfReach('match.group form')
                yield st, self.group(args[0].py)
            return st, mk(EngineCallable(call))
        if attr == 'groups':
            def call(ex, st, args, kwargs, fr):
                n = len(self.comp.groups)
                if set(self.comp.groups) != set(range(1, n + 1)):
                    raise OutOfReach('match.groups with non-fixed groups')
                yield st, SV(None, Ty('pytuple'), tuple(self.group(i) for i in range(1, n + 1)))
            return st, mk(EngineCallable(call))
        raise OutOfReach('match object attribute %s' % attr)


def install(world):
    """register re.match / re.search / re.compile / re.escape hooks as external-call models"""
    from .engine import Raised, NONE_SV

    def _compiled(args, kwargs):
        pat = args[0]
        if not (pat.is_py and isinstance(pat.py, str)):
            raise OutOfReach('regex pattern is not a constant')
        flags = 0
        if len(args) > 2:
            flags = args[2].py
        if 'flags' in kwargs:
            flags = kwargs['flags'].py
        return Compiled(pat.py, int(flags))

    def re_match(ex, st, args, kwargs, fr):
        comp = _compiled(args, kwargs)
        s = ex.term(args[1], 'S')
        c = comp.match_cond(s)
        for st1, b in ex.branch(st, c):
            if b:
                if not comp.anchored_start:
                    pass
                yield st1, mk(MatchV(comp, s))
            else:
                yield st1, NONE_SV

    def re_search(ex, st, args, kwargs, fr):
        comp = _compiled(args, kwargs)
        s = ex.term(args[1], 'S')
        c = comp.search_cond(s)
        for st1, b in ex.branch(st, c):
            if b:
                if not comp.anchored_start:
                    yield st1, mk(SearchV(comp, s))
                else:
                    yield st1, mk(MatchV(comp, s))
            else:
                yield st1, NONE_SV

    def re_escape(ex, st, args, kwargs, fr):
        a = args[0]
        if a.is_py:
            yield st, mk(re.escape(a.py))
        else:
            yield st, SV(ex.uf('re_escape', StrS, StrS)(ex.term(a, 'S')), STR)

    def strptime(ex, st, args, kwargs, fr):
        # datetime.strptime(text, fmt): ASSUMED contract - acceptance and value are functions of (text, format)
        from .tys import ObjT
        v, f = ex.term(args[0], 'S'), ex.term(args[1], 'S')
        ok = ex.uf('strptime_ok', StrS, StrS, BoolS)(v, f)
        for st1, b in ex.branch(st, ok):
            if b:
                yield st1, SV(ex.uf('strptime_val', StrS, StrS, IntS)(v, f), ObjT('DateTime'))
            else:
                yield ex.raise_(st1, ValueError, 'time data does not match format')

    def strftime(ex, st, args, kwargs, fr):
        # datetime.strftime(value, fmt): ASSUMED - a function of (value, format)
        v = ex.term(args[0], 'V')
        yield st, SV(ex.uf('strftime', ex.term(args[0], 'V').sort(), StrS, StrS)(v, ex.term(args[1], 'S')), STR)

    world.specfuncs['ext:strftime'] = strftime
    world.specfuncs['ext:date.strftime'] = strftime
    world.specfuncs['ext:strptime'] = strptime
    world.specfuncs['ext:re.escape'] = re_escape
    world.specfuncs['ext:re.match'] = re_match
    world.specfuncs['ext:re.search'] = re_search


class SearchV(object):
    """successful unanchored search.  Groups are available when the pattern is end-anchored (`$`) and the group is
    the fixed-width tail of the pattern: it is then the suffix of the subject (before one trailing newline, which `$`
    tolerates)."""

    def __init__(self, comp, s):
        self.comp, self.s = comp, s

    def suffix_group(self):
        comp = self.comp
        w = getattr(comp, 'tail_group_width', None)
        if not (comp.anchored_end and w):
            raise OutOfReach('groups of an unanchored regex search')
        if not comp.prefix_nullable:
            raise OutOfReach('suffix group of a search with a constraining prefix')
        n = z3.Length(self.s)
        at_end, before_nl = comp.tail_search_parts(self.s)
        # CPython's search returns the leftmost match; a match ending before a trailing newline starts further left
        # than one ending at the very end only if both exist - then the leftmost start wins: the one before the newline
        end = z3.If(before_nl, n - 1, n)
        return SV(z3.SubString(self.s, end - w, w), STR)

    def match_obj_attr(self, ex, st, attr):
        from .calls import EngineCallable
        if attr == 'groups':
            def call(ex, st, args, kwargs, fr):
                yield st, SV(None, Ty('pytuple'), (self.suffix_group(),) + tuple(mk(None) for _ in range(0)))
            return st, mk(EngineCallable(call))
        if attr == 'group':
            def call(ex, st, args, kwargs, fr):
                if len(args) == 1 and args[0].is_py and args[0].py == 1:
                    yield st, self.suffix_group()
                else:
                    raise OutOfReach('search group form')
            return st, mk(EngineCallable(call))
        raise OutOfReach('match object attribute %s' % attr)
