"""Expression evaluation (symbolic), Python semantics for the supported subset."""
import ast
import builtins as _bi
import z3

from .tys import *     # noqa
from .engine import (SV, mk, NOPY, NONE_SV, PYOBJ, ExcVal, Raised, OutOfReach, Val, VNONE, SORTS, IntS, BoolS, StrS,
                     code_of, fresh, fresh_name, VC)


class BoundMethod(object):
    def __init__(self, func, selfv, defcls=None):
        self.func = func          # python function object
        self.selfv = selfv
        self.defcls = defcls


class BoundBuiltin(object):
    def __init__(self, recv, name):
        self.recv = recv
        self.name = name


class SuperProxy(object):
    def __init__(self, after_cls, selfv, static_cls):
        self.after_cls = after_cls
        self.selfv = selfv
        self.static_cls = static_cls


class LambdaV(object):
    def __init__(self, node, fr, st_locals):
        self.node = node
        self.fr = fr
        self.locals = st_locals


class GenV(object):
    """a generator expression / comprehension kept unevaluated (elt, generators, frame, locals)"""

    def __init__(self, node, fr, locals_):
        self.node = node
        self.fr = fr
        self.locals = locals_


class PyDict(object):
    """engine-level dict with concrete string keys (immutable; local literals only)"""

    def __init__(self, items):
        self.items = dict(items)


class CondSet(object):
    """finite set of concrete candidates with membership conditions"""

    def __init__(self, items):
        self.items = list(items)   # [(pyvalue, z3 cond)]


class DictKeys(object):
    def __init__(self, d):
        self.d = d


class DictItems(object):
    def __init__(self, d):
        self.d = d


class DictValues(object):
    def __init__(self, d):
        self.d = d


class CondList(object):
    """list whose entries are present under conditions, order unspecified (dict-item comprehensions)"""

    def __init__(self, items):
        self.items = list(items)   # [(z3 cond, SV)]


class EnumV(object):
    def __init__(self, seq, start=0):
        self.seq = seq
        self.start = start


class RangeV(object):
    def __init__(self, lo, hi):
        self.lo = lo
        self.hi = hi


class ReversedV(object):
    def __init__(self, seq):
        self.seq = seq


def is_pyobj(sv, cls):
    return sv.is_py and isinstance(sv.py, cls)


class ExprMixin(object):
    spec_mode = False

    # ------------------------------------------------------------------ helpers
    def raise_(self, st, cls, *args, node=None):
        return st, Raised(ExcVal(cls, [mk(a) for a in args], node=node))

    def truth(self, st, sv):
        """z3 Bool / python bool for the truthiness of sv (no forking, no side effects) or None if it needs a call"""
        if sv.is_py:
            v = sv.py
            if isinstance(v, (bool, int, str)) or v is None:
                return bool(v)
            if isinstance(v, tuple):
                return len(v) > 0
            if isinstance(v, CondSet):
                return z3.Or(*[c for _, c in v.items]) if v.items else False
            if isinstance(v, CondList):
                return z3.Or(*[c for c, _ in v.items]) if v.items else False
            if isinstance(v, PyDict):
                return len(v.items) > 0
            if isinstance(v, (type, ExcVal)) or callable(v):
                return True
            if isinstance(v, (list, dict, set, frozenset)):
                return len(v) > 0
            return True
        k = sv.ty.kind
        t = sv.term
        if k == 'bool':
            return t
        if k == 'int':
            return t != 0
        if k in ('str', 'bytes'):
            return z3.Length(t) > 0
        if k in ('list', 'tuple'):
            return self.H(st, 'Ll')[t] > 0
        if k in ('dict', 'set'):
            return self.uf('dsize', z3.ArraySort(StrS, BoolS), IntS)(self.H(st, 'Dd')[t]) > 0
        if k == 'obj':
            r = self.obj_truth(st, sv)
            return r
        if k == 'opt':
            inner = sv.ty.args[0]
            if inner.is_ref:
                it = self.truth(st, SV(t, inner))
                if it is None:
                    return None
                if it is True:
                    return t != 0
                return z3.And(t != 0, it)
            c = code_of(inner)
            if c == 'S':
                return z3.And(Val.is_VStr(t), z3.Length(Val.sval(t)) > 0)
            if c == 'I':
                return z3.And(Val.is_VInt(t), Val.ival(t) != 0)
            if c == 'B':
                return z3.And(Val.is_VBool(t), Val.bval(t))
        if k == 'any':
            # dynamic: ints, bools, strs, None decided by value; references: non-null assumed truthy only for
            # plain objects -> cannot decide in general
            return z3.Or(z3.And(Val.is_VInt(t), Val.ival(t) != 0), z3.And(Val.is_VBool(t), Val.bval(t)),
                         z3.And(Val.is_VStr(t), z3.Length(Val.sval(t)) > 0),
                         z3.And(Val.is_VRef(t), Val.addr(t) != 0, self.uf('truthy_ref', IntS, BoolS)(Val.addr(t))))
        raise OutOfReach('truthiness of %r' % (sv,))

    def obj_truth(self, st, sv):
        """truthiness of a non-null object of static class C: True unless some candidate class defines __len__/__bool__"""
        cname = sv.ty.args[0]
        if cname not in self.world.classes:
            return True
        cands = [self.world.classes[n] for n in self.world.subclasses(cname)]
        has = [c for c in cands if hasattr(c, '__len__') or '__bool__' in c.__dict__]
        if not has:
            return True
        if len(has) == len(cands):
            return None     # needs a __len__ call
        raise OutOfReach('truthiness of %s depends on the dynamic class' % cname)

    def cond(self, st, sv, fr):
        """generator of (st, z3Bool|bool) for the truthiness of sv, performing __len__ calls if needed"""
        t = self.truth(st, sv)
        if t is not None:
            yield st, t
            return
        # object with __len__
        isopt = sv.ty.kind == 'opt'
        obj = SV(sv.term, sv.ty.args[0]) if isopt else sv
        for st1, r in self.call_method(st, obj, '__len__', [], {}, fr):
            if isinstance(r, Raised):
                yield st1, r
                continue
            c = self.term(r, 'I') > 0
            if isopt:
                c = z3.And(sv.term != 0, c)
            yield st1, c

    def is_none(self, sv):
        """z3 Bool / python bool: sv is None"""
        if sv.is_py:
            return sv.py is None
        k = sv.ty.kind
        if k == 'none':
            return True
        if k == 'opt':
            if sv.ty.args[0].is_ref:
                return sv.term == 0
            return sv.term == VNONE
        if k == 'any':
            return sv.term == VNONE
        return False

    def eq(self, st, a, b):
        """z3 Bool / python bool for a == b (Python semantics for the supported cases)"""
        for x, y in ((a, b), (b, a)):
            if x.is_py and type(x.py).__name__ == 'ClassOf':
                if y.is_py and isinstance(y.py, type):
                    if y.py.__name__ in self.world.classes and self.world.classes[y.py.__name__] is y.py:
                        return self.H(st, 'cls')[x.py.obj.term] == self.world.cid(y.py.__name__)
                    return False
                raise OutOfReach('comparison of type(obj) with %r' % (y,))
        if a.is_py and b.is_py:
            if isinstance(a.py, tuple) and isinstance(b.py, tuple):
                if len(a.py) != len(b.py):
                    return False
                cs = [self.eq(st, x, y) for x, y in zip(a.py, b.py)]
                return self.and_(cs)
            if isinstance(a.py, (int, str, bool, type(None), type)) and isinstance(b.py, (int, str, bool, type(None), type)):
                return a.py == b.py
            if isinstance(a.py, tuple) or isinstance(b.py, tuple):
                return False
            return a.py is b.py
        if a.is_py and not b.is_py:
            a, b = b, a
        # a symbolic
        ka = a.ty.kind
        if b.is_py and b.py is None:
            return self.is_none(a)
        if b.is_py and isinstance(b.py, tuple):
            if ka == 'tuple' or (ka == 'opt' and a.ty.args[0].kind == 'tuple') or ka == 'any':
                return self.tuple_eq_py(st, a, b)
            return False
        ca = code_of(a.ty)
        if b.is_py:
            v = b.py
            if isinstance(v, bool):
                cb = 'B'
            elif isinstance(v, int):
                cb = 'I'
            elif isinstance(v, str):
                cb = 'S'
            elif isinstance(v, type):
                cb = 'R'
            else:
                raise OutOfReach('== with python object %r' % (v,))
        else:
            cb = code_of(b.ty)
        if ca == cb or (ca in 'IR' and cb in 'IR'):
            if ca == 'R' and cb == 'R':
                self.check_identity_eq(a, b)
            return self.term(a) == self.term(b)
        if ca == 'V' or cb == 'V':
            if ca == 'V' and a.ty.kind == 'opt' and cb != 'V':
                # opt(T) == value of other kind
                if code_of(a.ty.args[0]) not in (cb, ) and not (code_of(a.ty.args[0]) in 'IR' and cb in 'IR'):
                    return False if not (code_of(a.ty.args[0]) in 'IB' and cb in 'IB') else self._raise_oor('int/bool mix')
            if cb == 'V' and b.ty.kind == 'opt' and ca != 'V':
                if code_of(b.ty.args[0]) not in (ca, ) and not (code_of(b.ty.args[0]) in 'IR' and ca in 'IR'):
                    return False
            return self.term(a, 'V') == self.term(b, 'V')
        if {ca, cb} <= {'I', 'B'}:
            raise OutOfReach('int == bool comparison')
        return False

    def _raise_oor(self, m):
        raise OutOfReach(m)

    def check_identity_eq(self, a, b):
        """== on references is identity only for classes without __eq__; lists/tuples compare structurally"""
        for x in (a, b):
            t = x.ty.args[0] if x.ty.kind == 'opt' else x.ty
            if t.kind in ('list', 'tuple', 'dict', 'set'):
                raise OutOfReach('structural == on %r' % (t,))
            if t.kind == 'obj' and t.args[0] in self.world.classes:
                for n in self.world.subclasses(t.args[0]):
                    c = self.world.classes[n]
                    if c.__eq__ is not object.__eq__ and not issubclass(c, BaseException):
                        raise OutOfReach('class %s defines __eq__' % n)

    def tuple_eq_py(self, st, a, b):
        """heap tuple a == engine tuple b"""
        if a.ty.kind == 'opt':
            addr = a.term
            base = [addr != 0]
        elif a.ty.kind == 'any':
            addr = Val.addr(a.term)
            base = [Val.is_VRef(a.term), addr != 0, self.H(st, 'cls')[addr] == self.world.cid('tuple')]
        else:
            addr = a.term
            base = []
        ll = self.H(st, 'Ll')[addr]
        arr = self.H(st, 'La.V')[addr]
        cs = base + [ll == len(b.py)]
        for i, x in enumerate(b.py):
            if x.is_py and isinstance(x.py, tuple):
                cs.append(self.tuple_eq_py(st, SV(arr[i], ANY), x))
            else:
                if x.is_py and x.py is None:
                    cs.append(arr[i] == VNONE)
                else:
                    xt = x.ty.args[0] if x.ty.kind == 'opt' else x.ty
                    if xt.kind in ('list', 'dict', 'set', 'tuple'):
                        raise OutOfReach('structural == on nested %r' % (xt,))
                    cs.append(arr[i] == self.term(x, 'V'))
        return self.and_(cs)

    def and_(self, cs):
        out = []
        for c in cs:
            if c is False:
                return False
            if c is True:
                continue
            out.append(c)
        if not out:
            return True
        return z3.And(*out) if len(out) > 1 else out[0]

    def or_(self, cs):
        out = []
        for c in cs:
            if c is True:
                return True
            if c is False:
                continue
            out.append(c)
        if not out:
            return False
        return z3.Or(*out) if len(out) > 1 else out[0]

    def not_(self, c):
        if isinstance(c, bool):
            return not c
        return z3.Not(c)

    def bool_sv(self, c):
        if isinstance(c, bool):
            return mk(c)
        return SV(c, BOOL)

    # ------------------------------------------------------------------ evaluation
    def ev(self, node, st, fr):
        m = getattr(self, 'ev_' + type(node).__name__, None)
        if m is None:
            raise OutOfReach('expression %s' % type(node).__name__)
        return m(node, st, fr)

    def ev_list(self, nodes, st, fr):
        """evaluate a list of expressions left to right; yields (st, [SV...] | Raised)"""
        if not nodes:
            yield st, []
            return
        for st1, v in self.ev(nodes[0], st, fr):
            if isinstance(v, Raised):
                yield st1, v
                continue
            for st2, rest in self.ev_list(nodes[1:], st1, fr):
                if isinstance(rest, Raised):
                    yield st2, rest
                else:
                    yield st2, [v] + rest

    def ev_Constant(self, node, st, fr):
        yield st, mk(node.value)

    def ev_Name(self, node, st, fr):
        n = node.id
        if n in st.locals:
            yield st, st.locals[n]
            return
        if n in fr.closure:
            yield st, fr.closure[n]
            return
        yield self.load_global(st, fr, n)

    def load_global(self, st, fr, n):
        mod = fr.module
        gk = '%s:%s' % (mod.__name__, n)
        if gk in self.world.globals_schema:
            ty = self.world.globals_schema[gk]
            t = self.H(st, 'g.' + gk)
            self.note_read_global(st, gk)
            return self.from_heap(st, t, ty)
        if hasattr(mod, n):
            v = getattr(mod, n)
        elif hasattr(_bi, n):
            v = getattr(_bi, n)
        else:
            return self.raise_(st, NameError, n)
        if isinstance(v, (list, dict, set)) and not self.readonly_global_ok(mod, n, v):
            raise OutOfReach('mutable module global %s not in the globals schema' % gk)
        return st, mk(v)

    def note_read_global(self, st, gk):
        st.ghost.setdefault('reads_globals', ())
        if gk not in st.ghost['reads_globals']:
            st.ghost['reads_globals'] = st.ghost['reads_globals'] + (gk,)

    def readonly_global_ok(self, mod, n, v):
        return False

    def ev_Tuple(self, node, st, fr):
        if any(isinstance(e, ast.Starred) for e in node.elts):
            raise OutOfReach('starred in tuple display')
        for st1, vs in self.ev_list(node.elts, st, fr):
            if isinstance(vs, Raised):
                yield st1, vs
            else:
                yield st1, SV(None, Ty('pytuple'), tuple(vs))

    def ev_List(self, node, st, fr):
        for st1, vs in self.ev_list(node.elts, st, fr):
            if isinstance(vs, Raised):
                yield st1, vs
                continue
            st2, lst = self.new_list(st1, vs)
            st2 = st2.copy()
            st2.ghost['lshadow:%s' % lst.term] = tuple(vs)     # known shape of a list display (until it is mutated)
            yield st2, lst

    def elem_type_of(self, vs):
        tys = set()
        for v in vs:
            t = self.static_type(v)
            tys.add(t)
        if len(tys) == 1:
            t = tys.pop()
            if t.kind in ('none', 'pyobj', 'pytuple'):
                return ANY
            return t
        return ANY

    def new_list(self, st, vs, elemty=None, kind='list'):
        if elemty is None:
            elemty = self.elem_type_of(vs)
        code = code_of(elemty)
        st, a = self.alloc(st, kind)
        arr = z3.K(IntS, self.default_term(code))
        for i, x in enumerate(vs):
            st, t = self.store_term(st, x, code)
            arr = z3.Store(arr, i, t)
        st = self.HS(st, 'La.' + code, z3.Store(self.H(st, 'La.' + code), a, arr))
        st = self.HS(st, 'Ll', z3.Store(self.H(st, 'Ll'), a, z3.IntVal(len(vs))))
        return st, SV(a, Ty(kind, elemty) if kind == 'list' else TupleVar(elemty))

    def default_term(self, code):
        return {'I': z3.IntVal(0), 'R': z3.IntVal(0), 'B': z3.BoolVal(False), 'S': z3.StringVal(''), 'V': VNONE}[code]

    def ev_Set(self, node, st, fr):
        for st1, vs in self.ev_list(node.elts, st, fr):
            if isinstance(vs, Raised):
                yield st1, vs
                continue
            if all(v.is_py and isinstance(v.py, (str, int)) for v in vs):
                yield st1, mk(frozenset(v.py for v in vs))
            else:
                raise OutOfReach('set display with symbolic elements')

    def ev_Dict(self, node, st, fr):
        if any(k is None for k in node.keys):
            raise OutOfReach('dict unpacking in display')
        for st1, ks in self.ev_list(node.keys, st, fr):
            if isinstance(ks, Raised):
                yield st1, ks
                continue
            for st2, vs in self.ev_list(node.values, st1, fr):
                if isinstance(vs, Raised):
                    yield st2, vs
                    continue
                if not all(k.is_py and isinstance(k.py, str) for k in ks):
                    raise OutOfReach('dict display with symbolic keys')
                yield self.new_dict(st2, [k.py for k in ks], vs, getattr(self, '_dict_valty', None))

    def new_dict(self, st, keys, vs, valty=None):
        """dict display with constant string keys -> heap dict; a ghost shadow remembers the key set and the
        static types (needed for ** expansion and .update)"""
        if valty is None:
            valty = self.elem_type_of(vs) if vs else ANY
        code = code_of(valty)
        st, a = self.alloc(st, 'dict')
        dom = z3.K(StrS, z3.BoolVal(False))
        val = z3.K(StrS, self.default_term(code))
        shadow = []
        for k, v in zip(keys, vs):
            st, t = self.store_term(st, v, code)
            dom = z3.Store(dom, z3.StringVal(k), z3.BoolVal(True))
            val = z3.Store(val, z3.StringVal(k), t)
            shadow = [(kk, vv) for kk, vv in shadow if kk != k] + [(k, v)]
        st = self.HS(st, 'Dd', z3.Store(self.H(st, 'Dd'), a, dom))
        st = self.HS(st, 'Dv.' + code, z3.Store(self.H(st, 'Dv.' + code), a, val))
        st.ghost['shadow:%s' % a] = tuple(shadow)
        return st, SV(a, DictT(valty))

    def dict_shadow(self, st, d):
        if d.is_py and isinstance(d.py, PyDict):
            return tuple(d.py.items.items())
        if d.is_py:
            return None
        return st.ghost.get('shadow:%s' % d.term)

    def ev_IfExp(self, node, st, fr):
        for st1, c in self.ev(node.test, st, fr):
            if isinstance(c, Raised):
                yield st1, c
                continue
            for st2, cb in self.cond(st1, c, fr):
                if isinstance(cb, Raised):
                    yield st2, cb
                    continue
                for st3, b in self.branch(st2, cb):
                    for r in self.ev(node.body if b else node.orelse, st3, fr):
                        yield r

    def ev_BoolOp(self, node, st, fr):
        isand = isinstance(node.op, ast.And)

        def go(i, st):
            for st1, v in self.ev(node.values[i], st, fr):
                if isinstance(v, Raised) or i == len(node.values) - 1:
                    yield st1, v
                    continue
                for st2, c in self.cond(st1, v, fr):
                    if isinstance(c, Raised):
                        yield st2, c
                        continue
                    for st3, b in self.branch(st2, c):
                        if b == isand:
                            for r in go(i + 1, st3):
                                yield r
                        else:
                            yield st3, v
        return go(0, st)

    def ev_UnaryOp(self, node, st, fr):
        for st1, v in self.ev(node.operand, st, fr):
            if isinstance(v, Raised):
                yield st1, v
                continue
            if isinstance(node.op, ast.Not):
                for st2, c in self.cond(st1, v, fr):
                    if isinstance(c, Raised):
                        yield st2, c
                    else:
                        yield st2, self.bool_sv(self.not_(c))
            elif isinstance(node.op, ast.USub):
                if v.is_py:
                    yield st1, mk(-v.py)
                elif v.ty.kind == 'int':
                    yield st1, SV(-v.term, INT)
                else:
                    raise OutOfReach('unary minus on %r' % (v,))
            elif isinstance(node.op, ast.UAdd):
                yield st1, v
            else:
                raise OutOfReach('unary op')

    def ev_Compare(self, node, st, fr):
        def go(i, st, left, acc):
            # acc: conjunction so far (z3/py bool)
            for st1, right in self.ev(node.comparators[i], st, fr):
                if isinstance(right, Raised):
                    yield st1, right
                    continue
                for st2, c in self.compare(st1, node.ops[i], left, right, fr):
                    if isinstance(c, Raised):
                        yield st2, c
                        continue
                    if i == len(node.ops) - 1:
                        yield st2, self.bool_sv(self.and_([acc, c]))
                    else:
                        # short circuit: if c is false the chain stops; evaluation of later comparators
                        # could raise, so fork
                        for st3, b in self.branch(st2, c):
                            if b:
                                for r in go(i + 1, st3, right, acc):
                                    yield r
                            else:
                                yield st3, mk(False)
        for st0, left in self.ev(node.left, st, fr):
            if isinstance(left, Raised):
                yield st0, left
                continue
            for r in go(0, st0, left, True):
                yield r

    def compare(self, st, op, a, b, fr):
        """yields (st, z3Bool|bool|Raised)"""
        if isinstance(op, (ast.Eq, ast.NotEq)):
            # objects with __eq__ not supported; identity otherwise
            c = self.eq(st, a, b)
            yield st, (c if isinstance(op, ast.Eq) else self.not_(c))
        elif isinstance(op, (ast.Is, ast.IsNot)):
            if b.is_py and b.py is None:
                c = self.is_none(a)
            elif a.is_py and a.py is None:
                c = self.is_none(b)
            elif a.is_py and b.is_py:
                c = a.py is b.py
            else:
                ca, cb = code_of(a.ty), (code_of(b.ty) if not b.is_py else None)
                if ca == 'R' and (cb == 'R' or (b.is_py and isinstance(b.py, type))):
                    c = self.term(a) == self.term(b, 'R')
                elif ca == 'V' and cb == 'R':
                    # a dynamically typed value against a reference: identical iff it holds that reference
                    c = z3.And(Val.is_VRef(a.term), Val.addr(a.term) == self.term(b, 'R'))
                elif ca == 'R' and cb == 'V':
                    c = z3.And(Val.is_VRef(b.term), Val.addr(b.term) == self.term(a, 'R'))
                else:
                    raise OutOfReach('is on non-references')
            yield st, (c if isinstance(op, ast.Is) else self.not_(c))
        elif isinstance(op, (ast.Lt, ast.LtE, ast.Gt, ast.GtE)):
            for r in self.order_narrow(st, op, a, b):
                yield r
        elif isinstance(op, (ast.In, ast.NotIn)):
            for st1, c in self.contains(st, b, a, fr):
                if isinstance(c, Raised):
                    yield st1, c
                else:
                    yield st1, (c if isinstance(op, ast.In) else self.not_(c))
        else:
            raise OutOfReach('comparison op')

    def order(self, st, op, a, b):
        if a.is_py and b.is_py and isinstance(a.py, tuple) and isinstance(b.py, tuple) and len(a.py) == len(b.py) \
                and all(self.num_or_str(x) == 'I' for x in a.py + b.py):
            # lexicographic comparison of two int tuples
            strict = isinstance(op, (ast.Lt, ast.Gt))
            gt = isinstance(op, (ast.Gt, ast.GtE))
            xs = [self.term(x, 'I') for x in a.py]
            ys = [self.term(y, 'I') for y in b.py]
            if gt:
                xs, ys = ys, xs
            res = z3.BoolVal(not strict)
            for x, y in reversed(list(zip(xs, ys))):
                res = z3.Or(x < y, z3.And(x == y, res))
            return st, res
        if a.is_py and b.is_py and isinstance(a.py, (int, str)) and isinstance(b.py, (int, str)) and type(a.py) == type(b.py):
            f = {ast.Lt: lambda x, y: x < y, ast.LtE: lambda x, y: x <= y, ast.Gt: lambda x, y: x > y,
                 ast.GtE: lambda x, y: x >= y}[type(op)]
            return st, f(a.py, b.py)
        ka = self.num_or_str(a)
        kb = self.num_or_str(b)
        if ka is None or kb is None:
            # opt values: comparing None raises TypeError in py3
            return self.order_dynamic(st, op, a, b)
        if ka != kb:
            return self.raise_(st, TypeError, 'unorderable types')
        ta, tb = self.term(a, ka), self.term(b, kb)
        if ka == 'I':
            c = {ast.Lt: ta < tb, ast.LtE: ta <= tb, ast.Gt: ta > tb, ast.GtE: ta >= tb}[type(op)]
        else:
            lt = z3.StrLT if hasattr(z3, 'StrLT') else None
            c = {ast.Lt: lambda: ta < tb, ast.LtE: lambda: ta <= tb, ast.Gt: lambda: tb < ta,
                 ast.GtE: lambda: tb <= ta}[type(op)]()
        return st, c

    def order_narrow(self, st, op, a, b, depth=0):
        """ordering comparison with None-able operands: None raises TypeError (python 3)"""
        for which, x in ((0, a), (1, b)):
            if not x.is_py and x.ty.kind == 'opt' and code_of(x.ty.args[0]) in 'SI' and self.spec_mode:
                # contract clauses guard None themselves; the comparison is on the unboxed value
                st2, u = self.unbox(st, x.term, x.ty.args[0])
                for r in self.order_narrow(st2, op, u if which == 0 else a, b if which == 0 else u, depth + 1):
                    yield r
                return
            if not x.is_py and x.ty.kind == 'opt' and code_of(x.ty.args[0]) in 'SI':
                for st1, isn in self.branch(st, self.is_none(x)):
                    if isn:
                        if self.spec_mode:
                            continue
                        yield self.raise_(st1, TypeError, 'ordering with None')
                    else:
                        st2, u = self.unbox(st1, x.term, x.ty.args[0])
                        for r in self.order_narrow(st2, op, u if which == 0 else a, b if which == 0 else u, depth + 1):
                            yield r
                return
            if x.is_py and x.py is None:
                yield self.raise_(st, TypeError, 'ordering with None')
                return
        yield self.order(st, op, a, b)

    def num_or_str(self, v):
        if v.is_py:
            if isinstance(v.py, bool):
                return None
            if isinstance(v.py, int):
                return 'I'
            if isinstance(v.py, str):
                return 'S'
            return None
        if v.ty.kind == 'int':
            return 'I'
        if v.ty.kind in ('str', 'bytes'):
            return 'S'
        return None

    def order_dynamic(self, st, op, a, b):
        raise OutOfReach('ordering on %r / %r' % (a, b))

    def contains(self, st, container, item, fr):
        """yields (st, cond) for `item in container`"""
        c = container
        if c.is_py:
            v = c.py
            if isinstance(v, tuple):
                yield st, self.or_([self.eq(st, item, x) for x in v])
                return
            if isinstance(v, (frozenset, set, list)):
                yield st, self.or_([self.eq(st, item, mk(x)) for x in v])
                return
            if isinstance(v, str):
                if item.is_py:
                    yield st, item.py in v
                    return
                if item.ty.kind == 'str':
                    yield st, z3.Contains(z3.StringVal(v), item.term)
                    return
            if isinstance(v, PyDict):
                yield st, self.or_([self.eq(st, item, mk(k)) for k in v.items])
                return
            if isinstance(v, CondSet):
                yield st, self.or_([self.and_([cnd, self.eq(st, item, mk(k))]) for k, cnd in v.items])
                return
            if isinstance(v, DictKeys):
                for r in self.contains(st, v.d, item, fr):
                    yield r
                return
            if type(v).__name__ == 'ClassDep' and not item.is_py:
                cls = self.H(st, 'cls')
                alts = []
                for n, val in v.vals.items():
                    if not isinstance(val, (tuple, list, frozenset, set)):
                        raise OutOfReach('membership in a class-dependent attribute that is not a collection')
                    alts.append(self.and_([cls[v.obj.term] == self.world.cid(n), self.or_([self.eq(st, item, mk(x)) for x in val])]))
                yield st, self.or_(alts)
                return
            if type(v).__name__ == 'ClassDep':
                res = {n: (item.py in val) for n, val in v.vals.items()}
                if all(res.values()) or not any(res.values()):
                    yield st, all(res.values())
                    return
                cls = self.H(st, 'cls')
                yield st, z3.Or(*[cls[v.obj.term] == self.world.cid(n) for n, r in res.items() if r])
                return
            if isinstance(v, GenV):
                # x in (f(c) for c in seq)  ->  exists
                yield self.gen_contains(st, v, item)
                return
            raise OutOfReach('in on python object %r' % (v,))
        k = c.ty.kind
        if k in ('str', 'bytes'):
            yield st, z3.Contains(c.term, self.term(item, 'S'))
            return
        if k == 'dict' or k == 'set':
            kt = self.dict_key(item)
            if kt is None:
                if not item.is_py and item.ty.kind == 'any':
                    t = self.term(item, 'V')
                    kt = z3.If(t == VNONE, z3.StringVal(self.NONE_KEY), Val.sval(t))
                    yield st, z3.And(z3.Or(Val.is_VStr(t), t == VNONE), self.H(st, 'Dd')[c.term][kt])
                    return
                yield st, False
                return
            yield st, self.H(st, 'Dd')[c.term][kt]
            return
        if k in ('list', 'tuple'):
            elemty = self.seq_elem_type(c.ty)
            code = code_of(elemty)
            i = fresh('k', IntS)
            arr = self.H(st, 'La.' + code)[c.term]
            n = self.H(st, 'Ll')[c.term]
            if code == 'R':
                self.check_identity_eq(SV(arr[i], elemty), item)
            e = self.eq(st, SV(arr[i], elemty), item)
            if e is False:
                yield st, False
                return
            yield st, z3.Exists([i], z3.And(0 <= i, i < n, e))
            return
        if k == 'obj':
            for r in self.call_method(st, c, '__contains__', [item], {}, fr):
                st1, v = r
                if isinstance(v, Raised):
                    yield r
                else:
                    for st2, cb in self.cond(st1, v, fr):
                        yield st2, cb
            return
        raise OutOfReach('in on %r' % (c,))

    def gen_contains(self, st, gen, item):
        node = gen.node
        if len(node.generators) != 1 or node.generators[0].ifs:
            raise OutOfReach('membership in filtered generator')
        g = node.generators[0]
        st1 = st.copy()
        st1.locals = dict(gen.locals)
        for st2, seq in self.ev(g.iter, st1, gen.fr):
            if isinstance(seq, Raised):
                raise OutOfReach('generator source raises')
            if seq.is_py and isinstance(seq.py, (tuple, list)):
                items = seq.py
                cs = []
                for x in items:
                    st3 = self.bind_target(st2, g.target, mk(x), gen.fr)
                    outs = list(self.ev(node.elt, st3, gen.fr))
                    if len(outs) != 1 or isinstance(outs[0][1], Raised):
                        raise OutOfReach('generator element not pure')
                    cs.append(self.eq(st, outs[0][1], item))
                return st, self.or_(cs)
            if seq.is_py and isinstance(seq.py, DictValues) and seq.py.d.is_py and isinstance(seq.py.d.py, dict):
                cs = []
                for x in seq.py.d.py.values():
                    st3 = self.bind_target(st2, g.target, mk(x), gen.fr)
                    outs = list(self.ev(node.elt, st3, gen.fr))
                    if len(outs) != 1 or isinstance(outs[0][1], Raised):
                        raise OutOfReach('generator element not pure')
                    cs.append(self.eq(st, outs[0][1], item))
                return st, self.or_(cs)
            if seq.is_py and isinstance(seq.py, DictValues) and isinstance(node.elt, ast.Attribute) \
                    and isinstance(node.elt.value, ast.Name) and node.elt.attr == '__name__':
                # `x in (c.__name__ for c in d.values())` over a symbolic table of classes: the answer is left open (both
                # outcomes are explored) - an over-approximation, enough for frame and exception obligations
                self.notes.append('membership in a generator over a symbolic class table: abstracted to an unknown boolean')
                return st, z3.FreshConst(BoolS, 'class_table_member')
            raise OutOfReach('membership in generator over %r' % (seq,))
        raise OutOfReach('generator source')

    NONE_KEY = '\x00<None>'

    def dict_key(self, k):
        """String term for a dict key that is a str or None (None is encoded by a reserved sentinel string;
        ASSUMPTION: no real key equals the sentinel).  Returns None for other key kinds."""
        if k.is_py:
            if k.py is None:
                return z3.StringVal(self.NONE_KEY)
            if isinstance(k.py, str):
                return z3.StringVal(k.py)
            return None
        kd = k.ty.kind
        if kd in ('str',):
            return k.term
        if kd == 'none':
            return z3.StringVal(self.NONE_KEY)
        if (kd == 'opt' and code_of(k.ty.args[0]) == 'S') or kd == 'any':
            # dynamically typed keys: None or a str (any other key kind is outside the model)
            return z3.If(k.term == VNONE, z3.StringVal(self.NONE_KEY), Val.sval(k.term))
        return None

    def seq_elem_type(self, ty, index=None):
        if ty.kind == 'list':
            return ty.args[0]
        if ty.kind == 'tuple':
            if len(ty.args) == 2 and ty.args[1] is Ellipsis:
                return ty.args[0]
            if index is not None:
                return ty.args[index]
            s = set(ty.args)
            return s.pop() if len(s) == 1 else ANY
        raise OutOfReach('element type of %r' % (ty,))

    def seq_code(self, ty):
        """heap sort code of a list/tuple's storage"""
        if ty.kind == 'list':
            return code_of(ty.args[0])
        if ty.kind == 'tuple':
            if len(ty.args) == 2 and ty.args[1] is Ellipsis:
                return code_of(ty.args[0])
            return 'V'       # fixed-shape tuples are stored boxed
        raise OutOfReach('storage of %r' % (ty,))

    # ------------------------------------------------------------------ arithmetic / concatenation
    def ev_BinOp(self, node, st, fr):
        for st1, a in self.ev(node.left, st, fr):
            if isinstance(a, Raised):
                yield st1, a
                continue
            for st2, b in self.ev(node.right, st1, fr):
                if isinstance(b, Raised):
                    yield st2, b
                    continue
                for r in self.binop(st2, node.op, a, b, fr):
                    yield r

    def binop(self, st, op, a, b, fr):
        if isinstance(op, (ast.BitOr, ast.BitAnd)) and a.is_py and b.is_py and isinstance(a.py, frozenset) \
                and isinstance(b.py, frozenset):
            yield st, mk((a.py | b.py) if isinstance(op, ast.BitOr) else (a.py & b.py))
            return
        if isinstance(op, ast.Sub) and a.is_py and isinstance(a.py, frozenset) and b.is_py:
            from .builtins import SetOf
            if isinstance(b.py, frozenset):
                yield st, mk(a.py - b.py)
                return
            if isinstance(b.py, SetOf) and b.py.kind == 'dictkeys':
                d = b.py.src
                dom = self.H(st, 'Dd')[d.term]
                yield st, mk(CondSet([(k, z3.Not(dom[z3.StringVal(k)])) for k in sorted(a.py)]))
                return
        if a.is_py and b.is_py and isinstance(a.py, (int, str)) and isinstance(b.py, (int, str, tuple)) \
                and not isinstance(a.py, bool):
            try:
                if isinstance(op, ast.Mod) and isinstance(a.py, str):
                    if isinstance(b.py, tuple):
                        if all(x.is_py for x in b.py):
                            yield st, mk(a.py % tuple(x.py for x in b.py))
                            return
                        yield st, self.format_uf(st, ('%', a.py), list(b.py))
                        return
                    yield st, mk(a.py % b.py)
                    return
                if not isinstance(b.py, tuple):
                    f = {ast.Add: lambda x, y: x + y, ast.Sub: lambda x, y: x - y, ast.Mult: lambda x, y: x * y,
                         ast.FloorDiv: lambda x, y: x // y, ast.Mod: lambda x, y: x % y}[type(op)]
                    yield st, mk(f(a.py, b.py))
                    return
            except ZeroDivisionError:
                yield self.raise_(st, ZeroDivisionError)
                return
            except TypeError:
                yield self.raise_(st, TypeError)
                return
        ka, kb = self.num_or_str(a), self.num_or_str(b)
        if ka == 'I' and kb == 'I':
            ta, tb = self.term(a, 'I'), self.term(b, 'I')
            if isinstance(op, ast.Add):
                yield st, SV(ta + tb, INT)
            elif isinstance(op, ast.Sub):
                yield st, SV(ta - tb, INT)
            elif isinstance(op, ast.Mult):
                yield st, SV(ta * tb, INT)
            elif isinstance(op, (ast.FloorDiv, ast.Mod)):
                for st1, z in self.branch(st, tb == 0):
                    if z:
                        yield self.raise_(st1, ZeroDivisionError)
                    else:
                        # python floor semantics; SMT-LIB div is floor division for a positive divisor
                        q = z3.If(tb > 0, ta / tb, (-ta) / (-tb))
                        if isinstance(op, ast.FloorDiv):
                            yield st1, SV(q, INT)
                        else:
                            yield st1, SV(ta - tb * q, INT)
            else:
                raise OutOfReach('int operator')
            return
        if ka == 'S' and kb == 'S' and isinstance(op, ast.Add):
            ty = BYTES if (not a.is_py and a.ty.kind == 'bytes') or (not b.is_py and b.ty.kind == 'bytes') else STR
            yield st, SV(z3.Concat(self.term(a, 'S'), self.term(b, 'S')), ty)
            return
        if isinstance(op, ast.Mod) and a.is_py and isinstance(a.py, str):
            args = list(b.py) if (b.is_py and isinstance(b.py, tuple)) else [b]
            yield st, self.format_uf(st, ('%', a.py), args)
            return
        if isinstance(op, ast.Add) and not a.is_py and not b.is_py and a.ty.kind == 'list' and b.ty.kind == 'list':
            yield self.list_concat(st, a, b)
            return
        if isinstance(op, ast.Mult) and a.is_py and isinstance(a.py, int) and not b.is_py and b.ty.kind == 'list':
            a, b = b, a
        if isinstance(op, ast.Mult) and b.is_py and isinstance(b.py, int) and not a.is_py and a.ty.kind == 'list':
            sh = st.ghost.get('lshadow:%s' % a.term)
            if sh is None:
                raise OutOfReach('repetition of a list of unknown shape')
            items = list(sh) * b.py
            st2, lst = self.new_list(st, items)
            st2 = st2.copy()
            st2.ghost['lshadow:%s' % lst.term] = tuple(items)
            yield st2, lst
            return
        raise OutOfReach('binary op %s on %r, %r' % (type(op).__name__, a, b))

    def format_uf(self, st, template, args):
        """'...{}...'.format(args) with a constant template: exact when it is pure concatenation of str args,
        otherwise an uninterpreted function of the template and the (boxed) arguments"""
        kind, tpl = template
        if kind == 'format':
            pieces = self.parse_format(tpl)
            if pieces is not None and all((isinstance(p, str)) or self.num_or_str(args[p[0]]) == 'S' or
                                          (args[p[0]].is_py and isinstance(args[p[0]].py, (int, str)) and not isinstance(args[p[0]].py, bool))
                                          for p in pieces if not isinstance(p, str) or True):
                ok = True
                parts = []
                for p in pieces:
                    if isinstance(p, str):
                        if p:
                            parts.append(z3.StringVal(p))
                    else:
                        a = args[p[0]]
                        if a.is_py and isinstance(a.py, (int, str)) and not isinstance(a.py, bool):
                            parts.append(z3.StringVal(str(a.py)))
                        elif self.num_or_str(a) == 'S':
                            parts.append(self.term(a, 'S'))
                        else:
                            ok = False
                            break
                if ok:
                    if all(z3.is_string_value(p) for p in parts):
                        return mk(''.join(p.as_string() for p in parts))
                    if not parts:
                        return mk('')
                    return SV(z3.Concat(*parts) if len(parts) > 1 else parts[0], STR)
        import hashlib as _h
        name = 'fmt_%d_%s' % (len(args), _h.sha1(('%s|%s' % (kind, tpl)).encode()).hexdigest()[:10])
        self.fmt_templates = getattr(self, 'fmt_templates', {})
        self.fmt_templates[name] = (kind, tpl)
        f = self.uf(name, *([Val] * len(args) + [StrS]))
        ts = []
        for a in args:
            if a.is_py and isinstance(a.py, ExcVal):
                st, a = self.box_exc(st, a.py)
            ts.append(self.term(a, 'V'))
        return SV(f(*ts), STR)

    def parse_format(self, tpl):
        """split a str.format template into literal pieces and (argindex,) references; None if it uses
        format specs / attribute access"""
        import string
        out = []
        auto = 0
        try:
            for lit, field, spec, conv in string.Formatter().parse(tpl):
                out.append(lit)
                if field is None:
                    continue
                if spec or conv:
                    return None
                if field == '':
                    out.append((auto,))
                    auto += 1
                elif field.isdigit():
                    out.append((int(field),))
                else:
                    return None
        except ValueError:
            return None
        return out

    def list_concat(self, st, a, b):
        elemty = a.ty.args[0] if a.ty.args[0] == b.ty.args[0] else ANY
        code = code_of(elemty)
        if code_of(a.ty.args[0]) != code or code_of(b.ty.args[0]) != code:
            raise OutOfReach('list + list with different storage')
        st, r = self.alloc(st, 'list')
        na, nb = self.H(st, 'Ll')[a.term], self.H(st, 'Ll')[b.term]
        arr = fresh('cat', z3.ArraySort(IntS, SORTS[code]))
        i = fresh('i', IntS)
        A, B = self.H(st, 'La.' + code)[a.term], self.H(st, 'La.' + code)[b.term]
        st = st.assume(z3.ForAll([i], z3.Implies(z3.And(0 <= i, i < na), arr[i] == A[i])))
        st = st.assume(z3.ForAll([i], z3.Implies(z3.And(0 <= i, i < nb), arr[na + i] == B[i])))
        st = self.HS(st, 'La.' + code, z3.Store(self.H(st, 'La.' + code), r, arr))
        st = self.HS(st, 'Ll', z3.Store(self.H(st, 'Ll'), r, na + nb))
        return st, SV(r, ListT(elemty))

    # ------------------------------------------------------------------ subscripts
    def ev_Subscript(self, node, st, fr):
        for st1, base in self.ev(node.value, st, fr):
            if isinstance(base, Raised):
                yield st1, base
                continue
            if isinstance(node.slice, ast.Slice):
                for st2, lo in (self.ev(node.slice.lower, st1, fr) if node.slice.lower else [(st1, None)]):
                    if isinstance(lo, Raised):
                        yield st2, lo
                        continue
                    for st3, hi in (self.ev(node.slice.upper, st2, fr) if node.slice.upper else [(st2, None)]):
                        if isinstance(hi, Raised):
                            yield st3, hi
                            continue
                        if node.slice.step is not None:
                            raise OutOfReach('slice step')
                        for r in self.slice(st3, base, lo, hi, fr):
                            yield r
            else:
                for st2, idx in self.ev(node.slice, st1, fr):
                    if isinstance(idx, Raised):
                        yield st2, idx
                        continue
                    for r in self.getitem(st2, base, idx, fr):
                        yield r

    def norm_index(self, i, n):
        """python index normalisation: (normalised index term, in-range condition)"""
        if isinstance(i, int) and not isinstance(n, int):
            if i >= 0:
                return z3.IntVal(i), n > i
            return n + i, n + i >= 0
        if isinstance(i, int) and isinstance(n, int):
            j = i if i >= 0 else n + i
            return j, 0 <= j < n
        j = z3.If(i < 0, i + n, i)
        return j, z3.And(j >= 0, j < n)

    def int_of(self, sv):
        if sv.is_py:
            if isinstance(sv.py, bool) or not isinstance(sv.py, int):
                raise OutOfReach('non-int index %r' % (sv,))
            return sv.py
        if sv.ty.kind != 'int':
            raise OutOfReach('non-int index %r' % (sv,))
        return sv.term

    def getitem(self, st, base, idx, fr):
        if base.is_py:
            v = base.py
            if isinstance(v, (str, tuple)) and idx.is_py and isinstance(idx.py, int):
                try:
                    yield st, mk(v[idx.py])
                except IndexError:
                    if self.spec_mode:
                        yield st, NONE_SV       # guarded by the clause's own antecedent (evaluated eagerly)
                    else:
                        yield self.raise_(st, IndexError, 'index out of range')
                return
            if isinstance(v, tuple) and not idx.is_py:
                i = self.int_of(idx)
                n = len(v)
                for k in range(n):
                    for st1, b in self.branch(st, z3.Or(i == k, i == k - n)):
                        if b:
                            yield st1, v[k]
                for st1, b in self.branch(st, z3.Or(i >= n, i < -n)):
                    if b:
                        yield self.raise_(st1, IndexError, 'tuple index out of range')
                return
            if isinstance(v, str):
                base = SV(z3.StringVal(v), STR)
            elif isinstance(v, PyDict):
                if idx.is_py and isinstance(idx.py, str):
                    if idx.py in v.items:
                        yield st, v.items[idx.py]
                    else:
                        yield self.raise_(st, KeyError, idx.py)
                    return
                raise OutOfReach('symbolic key into literal dict')
            elif isinstance(v, dict) and idx.is_py:
                try:
                    yield st, mk(v[idx.py])
                except KeyError:
                    yield self.raise_(st, KeyError, idx.py)
                return
            elif isinstance(v, dict) and all(isinstance(k, str) for k in v):
                # constant dict, symbolic key: fork over the keys
                kt = self.term(idx, 'S') if self.num_or_str(idx) == 'S' else None
                if kt is None:
                    raise OutOfReach('constant dict with non-str key')
                for k, val in v.items():
                    for st1, b in self.branch(st, kt == z3.StringVal(k)):
                        if b:
                            yield st1, mk(val)
                for st1, b in self.branch(st, z3.And(*[kt != z3.StringVal(k) for k in v])):
                    if b:
                        yield self.raise_(st1, KeyError, 'key')
                return
            elif v is None:
                if self.spec_mode:
                    yield st, NONE_SV
                else:
                    yield self.raise_(st, TypeError, "'NoneType' object is not subscriptable")
                return
            else:
                raise OutOfReach('subscript on python object %r' % (v,))
        k = base.ty.kind
        if k in ('str', 'bytes'):
            i = self.int_of(idx)
            n = z3.Length(base.term)
            j, ok = self.norm_index(i, n)
            if self.spec_mode:
                yield st, SV(z3.SubString(base.term, j, 1), base.ty)
                return
            for st1, b in self.branch(st, ok):
                if b:
                    yield st1, SV(z3.SubString(base.term, j, 1), base.ty)
                else:
                    yield self.raise_(st1, IndexError, 'string index out of range')
            return
        if k in ('list', 'tuple'):
            i = self.int_of(idx)
            n = self.H(st, 'Ll')[base.term]
            fixed = k == 'tuple' and not (len(base.ty.args) == 2 and base.ty.args[1] is Ellipsis)
            if fixed and isinstance(i, int):
                L = len(base.ty.args)
                j = i if i >= 0 else L + i
                if not 0 <= j < L:
                    yield self.raise_(st, IndexError, 'tuple index out of range')
                    return
                arr = self.H(st, 'La.V')[base.term]
                yield self.unbox(st, arr[j], base.ty.args[j])
                return
            if fixed:
                raise OutOfReach('symbolic index into fixed-shape tuple')
            j, ok = self.norm_index(i, n)
            elemty = self.seq_elem_type(base.ty)
            code = self.seq_code(base.ty)
            arr = self.H(st, 'La.' + code)[base.term]
            if self.spec_mode:
                yield self.from_heap(st, arr[j], elemty) if code != 'V' or code_of(elemty) == 'V' else self.unbox(st, arr[j], elemty)
                return
            for st1, b in self.branch(st, ok):
                if b:
                    if code == 'V' and code_of(elemty) != 'V':
                        yield self.unbox(st1, arr[j], elemty)
                    else:
                        yield self.from_heap(st1, arr[j], elemty)
                else:
                    yield self.raise_(st1, IndexError, 'list index out of range')
            return
        if k == 'dict':
            valty = base.ty.args[0]
            code = code_of(valty)
            kt = self.dict_key(idx)
            if kt is None:
                yield self.raise_(st, KeyError, 'key')
                return
            present = self.H(st, 'Dd')[base.term][kt]
            val = self.H(st, 'Dv.' + code)[base.term][kt]
            if self.spec_mode:
                yield self.from_heap(st, val, valty)
                return
            for st1, b in self.branch(st, present):
                if b:
                    yield self.from_heap(st1, val, valty)
                elif st1.ghost.get('ddefault:%s' % base.term) is not None:
                    # collections.defaultdict: a missing key is inserted with the factory's value
                    dflt = st1.ghost['ddefault:%s' % base.term]
                    st2, t = self.store_term(st1, dflt, code)
                    st2 = self.HS(st2, 'Dd', z3.Store(self.H(st2, 'Dd'), base.term, z3.Store(self.H(st2, 'Dd')[base.term], kt, z3.BoolVal(True))))
                    st2 = self.HS(st2, 'Dv.' + code, z3.Store(self.H(st2, 'Dv.' + code), base.term,
                                                               z3.Store(self.H(st2, 'Dv.' + code)[base.term], kt, t)))
                    yield st2, dflt
                else:
                    yield self.raise_(st1, KeyError, idx)
            return
        if k == 'opt':
            for st1, b in self.branch(st, self.is_none(base)):
                if b:
                    yield self.raise_(st1, TypeError, "'NoneType' object is not subscriptable")
                else:
                    inner = base.ty.args[0]
                    if inner.is_ref:
                        for r in self.getitem(st1, SV(base.term, inner), idx, fr):
                            yield r
                    else:
                        st2, u = self.unbox(st1, base.term, inner)
                        for r in self.getitem(st2, u, idx, fr):
                            yield r
            return
        if k == 'obj' and base.ty.args[0] in getattr(self.world, 'tuple_records', {}):
            # immutable tuple-shaped record of the structure tables: index -> named field
            fields = self.world.tuple_records[base.ty.args[0]]
            if not (idx.is_py and isinstance(idx.py, int)):
                raise OutOfReach('symbolic index into a %s record' % base.ty.args[0])
            i = idx.py
            alen = self.record_len(st, base)
            if alen is None:
                if not -len(fields) <= i < len(fields):
                    yield self.raise_(st, IndexError, 'tuple index out of range')
                    return
                yield self.read_field(st, base, fields[i])
                return
            for st1, b in self.branch(st, alen > (i if i >= 0 else -i - 1)):
                if b:
                    yield self.read_field(st1, base, fields[i])
                else:
                    yield self.raise_(st1, IndexError, 'tuple index out of range')
            return
        if k == 'obj':
            for r in self.call_method(st, base, '__getitem__', [idx], {}, fr):
                yield r
            return
        if k == 'none':
            yield self.raise_(st, TypeError, "'NoneType' object is not subscriptable")
            return
        if k == 'any':
            # a dynamically typed value: decided by what it holds - a string, a structure-table record, a tuple / list of
            # dynamically typed items; anything else is not subscriptable here (None, numbers: TypeError; other objects:
            # out of reach)
            t = base.term
            a = Val.addr(t)
            cls = self.H(st, 'cls')
            cases = [('str', Val.is_VStr(t))]
            recs = [n for n in getattr(self.world, 'tuple_records', {}) if n in self.world.class_ids]
            for n in recs:
                cases.append(('rec:' + n, z3.And(Val.is_VRef(t), a > 0, cls[a] == self.world.cid(n))))
            for n in ('tuple', 'list'):
                cases.append((n, z3.And(Val.is_VRef(t), a > 0, cls[a] == self.world.cid(n))))
            cases.append(('scalar', z3.Or(t == VNONE, Val.is_VInt(t), Val.is_VBool(t))))
            rest = z3.Not(z3.Or(*[c for _, c in cases]))
            for tag, cnd in cases:
                stc = st.assume(cnd)
                if not self.feasible(stc):
                    continue
                if tag == 'str':
                    inner = SV(Val.sval(t), STR)
                elif tag.startswith('rec:'):
                    inner = SV(a, ObjT(tag[4:]))
                elif tag in ('tuple', 'list'):
                    inner = SV(a, TupleVar(ANY) if tag == 'tuple' else ListT(ANY))
                else:
                    yield self.raise_(stc, TypeError, 'object is not subscriptable')
                    continue
                for r in self.getitem(stc, inner, idx, fr):
                    yield r
            if self.feasible(st.assume(rest)):
                raise OutOfReach('subscript on a dynamically typed value that may be an object of another class')
            return
        raise OutOfReach('subscript on %r' % (base,))

    def record_len(self, st, base):
        """symbolic length of a variable-arity record (RefStruct: 2 or 6), None for fixed arity"""
        if self.world.field_type(base.ty.args[0], '_len') is None:
            return None
        st1, v = self.read_field(st, base, '_len')
        return v.term

    def slice(self, st, base, lo, hi, fr):
        def bound(x, n, default):
            # python slice clamping
            if x is None or (x.is_py and x.py is None):
                return default
            i = self.int_of(x)
            if isinstance(i, int) and isinstance(n, int):
                j = i + n if i < 0 else i
                return max(0, min(n, j))
            if isinstance(i, int):
                if i >= 0:
                    return z3.If(n < i, n, z3.IntVal(i))
                return z3.If(n + i < 0, z3.IntVal(0), n + i)
            j = z3.If(i < 0, i + n, i)
            return z3.If(j < 0, 0, z3.If(j > n, n, j))
        if base.is_py and isinstance(base.py, (str, tuple)):
            lov = None if lo is None else lo.py if lo.is_py else NOPY
            hiv = None if hi is None else hi.py if hi.is_py else NOPY
            if lov is not NOPY and hiv is not NOPY:
                r = base.py[lov:hiv]
                yield st, (mk(r) if isinstance(r, str) else SV(None, Ty('pytuple'), r))
                return
            if isinstance(base.py, str):
                base = SV(z3.StringVal(base.py), STR)
            else:
                raise OutOfReach('symbolic slice of engine tuple')
        k = base.ty.kind
        if k in ('str', 'bytes'):
            n = z3.Length(base.term)
            a = bound(lo, n, z3.IntVal(0))
            b = bound(hi, n, n)
            ln = z3.If(b - a < 0, 0, b - a)
            yield st, SV(z3.SubString(base.term, a, ln), base.ty)
            return
        if k in ('list', 'tuple'):
            n = self.H(st, 'Ll')[base.term]
            a = bound(lo, n, z3.IntVal(0))
            b = bound(hi, n, n)
            fixed = k == 'tuple' and not (len(base.ty.args) == 2 and base.ty.args[1] is Ellipsis)
            if fixed:
                L = len(base.ty.args)
                ai = (lo.py if lo is not None else 0)
                bi = (hi.py if hi is not None else L)
                if not (isinstance(ai, int) and isinstance(bi, int)):
                    raise OutOfReach('symbolic slice of fixed tuple')
                idxs = list(range(L))[ai:bi]
                arr = self.H(st, 'La.V')[base.term]
                items = []
                for j in idxs:
                    st, u = self.unbox(st, arr[j], base.ty.args[j])
                    items.append(u)
                yield st, SV(None, Ty('pytuple'), tuple(items))
                return
            elemty = self.seq_elem_type(base.ty)
            code = self.seq_code(base.ty)
            ln = z3.If(b - a < 0, 0, b - a)
            src = self.H(st, 'La.' + code)[base.term]
            st, r = self.alloc(st, k)
            arr = fresh('slice', z3.ArraySort(IntS, SORTS[code]))
            i = fresh('i', IntS)
            st = st.assume(z3.ForAll([i], z3.Implies(z3.And(0 <= i, i < ln), arr[i] == src[a + i])))
            st = self.HS(st, 'La.' + code, z3.Store(self.H(st, 'La.' + code), r, arr))
            st = self.HS(st, 'Ll', z3.Store(self.H(st, 'Ll'), r, ln))
            yield st, SV(r, base.ty)
            return
        if k == 'opt':
            for st1, b in self.branch(st, self.is_none(base)):
                if b:
                    yield self.raise_(st1, TypeError, "'NoneType' object is not subscriptable")
                else:
                    inner = base.ty.args[0]
                    if inner.is_ref:
                        u = SV(base.term, inner)
                    else:
                        st1, u = self.unbox(st1, base.term, inner)
                    for r in self.slice(st1, u, lo, hi, fr):
                        yield r
            return
        if k == 'any':
            t = base.term
            a = Val.addr(t)
            cls = self.H(st, 'cls')
            cases = [('str', Val.is_VStr(t), None)]
            for n in ('tuple', 'list'):
                cases.append((n, z3.And(Val.is_VRef(t), a > 0, cls[a] == self.world.cid(n)), None))
            cases.append(('scalar', z3.Or(t == VNONE, Val.is_VInt(t), Val.is_VBool(t)), None))
            rest = z3.Not(z3.Or(*[c for _, c, _ in cases]))
            for tag, cnd, _ in cases:
                stc = st.assume(cnd)
                if not self.feasible(stc):
                    continue
                if tag == 'str':
                    inner = SV(Val.sval(t), STR)
                elif tag in ('tuple', 'list'):
                    inner = SV(a, TupleVar(ANY) if tag == 'tuple' else ListT(ANY))
                else:
                    yield self.raise_(stc, TypeError, 'object is not subscriptable')
                    continue
                for r in self.slice(stc, inner, lo, hi, fr):
                    yield r
            if self.feasible(st.assume(rest)):
                raise OutOfReach('slice of a dynamically typed value that may be an object of another class')
            return
        if k == 'obj' and base.ty.args[0] in getattr(self.world, 'tuple_records', {}):
            # record[lo:] with a constant lo: one branch per modelled arity
            fields = self.world.tuple_records[base.ty.args[0]]
            lov = 0 if lo is None else (lo.py if lo.is_py else NOPY)
            if hi is not None and not (hi.is_py and hi.py is None) or not isinstance(lov, int) or lov < 0:
                raise OutOfReach('slice form on a %s record' % base.ty.args[0])
            alen = self.record_len(st, base)
            if alen is None:
                lens = [len(fields)]
            else:
                lens = list(range(0, len(fields) + 1))
            for L in lens:
                stL = st if alen is None else st.assume(alen == L)
                if alen is not None and not self.feasible(stL):
                    continue
                items = []
                for f in fields[lov:L]:
                    stL, v = self.read_field(stL, base, f)
                    items.append(v)
                yield stL, SV(None, Ty('pytuple'), tuple(items))
            if alen is not None:
                stX = st.assume(alen > len(fields))
                if self.feasible(stX):
                    raise OutOfReach('%s record longer than the modelled %d fields' % (base.ty.args[0], len(fields)))
            return
        raise OutOfReach('slice of %r' % (base,))

    # ------------------------------------------------------------------ comprehensions / lambdas
    def ev_Lambda(self, node, st, fr):
        yield st, mk(LambdaV(node, fr, dict(st.locals)))

    def ev_GeneratorExp(self, node, st, fr):
        yield st, mk(GenV(node, fr, dict(st.locals)))

    def ev_ListComp(self, node, st, fr):
        return self.comprehension(node, st, fr, 'list')

    def ev_SetComp(self, node, st, fr):
        return self.comprehension(node, st, fr, 'set')

    def comprehension(self, node, st, fr, kind):
        if len(node.generators) != 1:
            raise OutOfReach('nested comprehension')
        g = node.generators[0]
        for st1, seq in self.ev(g.iter, st, fr):
            if isinstance(seq, Raised):
                yield st1, seq
                continue
            for r in self.comp_over(node, g, st1, fr, seq, kind):
                yield r

    def comp_over(self, node, g, st, fr, seq, kind):
        # 1. concrete-shape sources: unroll
        if seq.is_py and isinstance(seq.py, (tuple, list, frozenset)):
            items = [mk(x) for x in seq.py]
            yield self.comp_unrolled(node, g, st, fr, items, kind)
            return
        if seq.is_py and isinstance(seq.py, DictItems):
            for r in self.comp_dict_items(node, g, st, fr, seq.py.d, kind):
                yield r
            return
        if seq.is_py:
            raise OutOfReach('comprehension over %r' % (seq.py,))
        if seq.ty.kind == 'opt' and seq.ty.args[0].is_ref:
            for st1, b in self.branch(st, self.is_none(seq)):
                if b:
                    yield self.raise_(st1, TypeError, "'NoneType' object is not iterable")
                else:
                    for r in self.comp_over(node, g, st1, fr, SV(seq.term, seq.ty.args[0]), kind):
                        yield r
            return
        if seq.ty.kind in ('list', 'tuple') or (seq.ty.kind == 'obj'):
            for r in self.comp_symbolic(node, g, st, fr, seq, kind):
                yield r
            return
        raise OutOfReach('comprehension over %r' % (seq,))

    def comp_unrolled(self, node, g, st, fr, items, kind):
        out = []
        for x in items:
            st_x = self.bind_target(st, g.target, x, fr)
            keep = True
            for cnd in g.ifs:
                rs = list(self.ev(cnd, st_x, fr))
                if len(rs) != 1 or isinstance(rs[0][1], Raised):
                    raise OutOfReach('comprehension filter not pure')
                t = self.truth(rs[0][0], rs[0][1])
                if not isinstance(t, bool):
                    raise OutOfReach('symbolic filter in unrolled comprehension')
                keep = keep and t
            if not keep:
                continue
            rs = list(self.ev(node.elt, st_x, fr))
            if len(rs) != 1 or isinstance(rs[0][1], Raised):
                raise OutOfReach('comprehension element not pure')
            out.append(rs[0][1])
        if kind == 'set':
            if all(o.is_py for o in out):
                return st, mk(frozenset(o.py for o in out))
            raise OutOfReach('symbolic set comprehension')
        return self.new_list(st, out)

    def comp_dict_items(self, node, g, st, fr, d, kind):
        """[v for k, v in d.items() if k in CONST_SET]  ->  conditional list"""
        if not (isinstance(g.target, ast.Tuple) and len(g.target.elts) == 2 and len(g.ifs) == 1):
            raise OutOfReach('comprehension over dict items: unsupported shape')
        kname, vname = g.target.elts[0].id, g.target.elts[1].id
        cnd = g.ifs[0]
        if not (isinstance(cnd, ast.Compare) and len(cnd.ops) == 1 and isinstance(cnd.ops[0], ast.In)
                and isinstance(cnd.left, ast.Name) and cnd.left.id == kname):
            raise OutOfReach('comprehension over dict items: unsupported filter')
        rs = list(self.ev(cnd.comparators[0], st, fr))
        if len(rs) != 1 or isinstance(rs[0][1], Raised) or not (rs[0][1].is_py and isinstance(rs[0][1].py, (frozenset, set, tuple, list))):
            raise OutOfReach('comprehension over dict items: filter set must be constant')
        keys = [x.py if isinstance(x, SV) else x for x in rs[0][1].py]
        valty = d.ty.args[0]
        code = code_of(valty)
        items = []
        for k in sorted(keys):
            kt = z3.StringVal(k)
            present = self.H(st, 'Dd')[d.term][kt]
            st, v = self.from_heap(st, self.H(st, 'Dv.' + code)[d.term][kt], valty)
            st_x = st.set(kname, mk(k)).set(vname, v)
            es = list(self.ev(node.elt, st_x, fr))
            if len(es) != 1 or isinstance(es[0][1], Raised):
                raise OutOfReach('comprehension element not pure')
            items.append((present, es[0][1]))
        yield st, mk(CondList(items))

    def merge_outcomes(self, base, outs):
        """outs: [(state, SV)] all extending base.pc; returns (state, SV) with the value an If-chain over the
        branch conditions, or None when the values have no common representation"""
        tys = [self.static_type(v) for _, v in outs]
        refs = [t for t in tys if t.kind != 'none']
        if not refs:
            return None
        t0 = refs[0]
        if any(str(t) != str(t0) for t in refs):
            return None
        inner = t0.args[0] if t0.kind == 'opt' else t0
        rty = Opt(inner) if (len(refs) != len(tys) or t0.kind == 'opt') and inner.is_ref else t0
        if len(refs) != len(tys) and not inner.is_ref:
            return None
        code = code_of(rty)
        term = None
        extras = [stx.pc[len(base.pc):] for stx, _ in outs]
        ids = [set(f.get_id() for f in ex) for ex in extras]
        common_ids = set.intersection(*ids) if ids else set()
        common = [f for f in extras[0] if f.get_id() in common_ids]     # facts every outcome assumed (typing, definitions)
        def neg_id(f):
            return f.arg(0).get_id() if z3.is_not(f) else z3.Not(f).get_id()
        all_ids = set.union(*ids) if ids else set()
        cond_facts = []
        for (stx, v), ex in reversed(list(zip(outs, extras))):
            own = [f for f in ex if f.get_id() not in common_ids]
            # branch conditions are the literals whose complement another outcome carries; the rest are typing /
            # definitional facts that hold whenever this outcome's branch is taken
            conds = [f for f in own if neg_id(f) in all_ids]
            facts = [f for f in own if neg_id(f) not in all_ids]
            guard = z3.And(*conds) if conds else z3.BoolVal(True)
            cond_facts.extend(z3.Implies(guard, f) for f in facts)
            t = self.term(v, code)
            term = t if term is None else z3.If(guard, t, term)
        stb = base.copy()
        stb.pc.extend(common)
        stb.pc.extend(cond_facts)
        stm, sv = self.from_heap(stb, term, rty)
        return stm, sv

    def comp_symbolic(self, node, g, st, fr, seq, kind):
        """[f(x) for x in xs] over a symbolic list: result R with len(R)==len(xs) and forall i. R[i]==f(xs[i]).
        Filters are supported only as `[x for x in xs if p(x)]` -> abstract sub-sequence (ghost index map)."""
        if seq.ty.kind == 'obj':
            # iterate an object through its __iter__/__getitem__+__len__ contract: use the class's `iter_list` hook
            st, seq = self.iter_source(st, seq, fr)
        n = self.H(st, 'Ll')[seq.term]
        elemty = self.seq_elem_type(seq.ty)
        code = self.seq_code(seq.ty)
        src = self.H(st, 'La.' + code)[seq.term]
        i = fresh('ci', IntS)
        if code == 'V' and code_of(elemty) != 'V':
            st_i, x = self.unbox(st, src[i], elemty)
        else:
            st_i, x = self.from_heap(st, src[i], elemty)
        facts_x = st_i.pc[len(st.pc):]
        st_i = self.bind_target(st_i.assume(z3.And(0 <= i, i < n)), g.target, x, fr)
        if g.ifs:
            yield self.comp_filtered(node, g, st, fr, seq, kind, i, st_i, n, src, elemty, facts_x)
            return
        es = list(self.ev(node.elt, st_i, fr))
        es = [e for e in es]
        if len(es) > 1 and not any(isinstance(e[1], Raised) for e in es) and kind != 'set' \
                and all(all(e[0].heap[k] is st_i.heap[k] or e[0].heap[k].eq(st_i.heap[k]) for k in st_i.heap if k in e[0].heap)
                        for e in es):
            # a forking but effect-free element (d.get(k, default)): merge the outcomes under their branch conditions
            merged = self.merge_outcomes(st_i, es)
            if merged is not None:
                es = [merged]
        if not es and not self.feasible(st_i):
            # no index exists (the source is provably empty on this path): the result is a fresh empty list
            yield self.new_list(st, [], ANY)
            return
        if len(es) != 1 or isinstance(es[0][1], Raised):
            raise OutOfReach('comprehension element not pure (forks or may raise): %s [%s]' % (
                ast.unparse(node.elt), ', '.join('raise' if isinstance(e[1], Raised) else str(self.static_type(e[1])) for e in es)))
        st_e, e = es[0]
        extra = st_e.pc[len(st_i.pc):]
        if kind == 'set':
            # {f(c) for c in xs}: set of strings as a predicate
            if self.num_or_str(e) != 'S' and not (not e.is_py and e.ty.kind == 'opt' and code_of(e.ty.args[0]) == 'S'):
                raise OutOfReach('set comprehension of non-strings')
            yield st, mk(SymSetComp(self, st, seq, i, n, e, facts_x + extra))
            return
        if e.is_py and isinstance(e.py, tuple):
            # list of fresh tuples: consecutive fresh addresses base+i
            items = e.py
            base = self.H(st, 'next')
            st = self.HS(st, 'next', base + n)
            cls = self.H(st, 'cls')
            ncls = fresh('cls', cls.sort())
            j = fresh('j', IntS)
            st = st.assume(z3.ForAll([j], ncls[j] == z3.If(z3.And(j >= base, j < base + n), self.world.cid('tuple'), cls[j])))
            st = self.HS(st, 'cls', ncls)
            ll = self.H(st, 'Ll')
            nll = fresh('Ll', ll.sort())
            st = st.assume(z3.ForAll([j], nll[j] == z3.If(z3.And(j >= base, j < base + n), len(items), ll[j])))
            st = self.HS(st, 'Ll', nll)
            la = self.H(st, 'La.V')
            nla = fresh('La', la.sort())
            st = st.assume(z3.ForAll([j], z3.Implies(z3.Not(z3.And(j >= base, j < base + n)), nla[j] == la[j])))
            for pos, it in enumerate(items):
                if it.is_py and isinstance(it.py, tuple):
                    raise OutOfReach('nested tuple in comprehension element')
                tv = self.term(it, 'V')
                st = st.assume(z3.ForAll([i], z3.Implies(z3.And(0 <= i, i < n), z3.And(*(facts_x + extra + [nla[base + i][pos] == tv])))))
            st = self.HS(st, 'La.V', nla)
            ety = TupleT(*[self.static_type(x) for x in items])
            st, r = self.alloc(st, 'list')
            arr = fresh('comp', z3.ArraySort(IntS, IntS))
            st = st.assume(z3.ForAll([i], z3.Implies(z3.And(0 <= i, i < n), arr[i] == base + i)))
            st = self.HS(st, 'La.R', z3.Store(self.H(st, 'La.R'), r, arr))
            st = self.HS(st, 'Ll', z3.Store(self.H(st, 'Ll'), r, n))
            yield st, SV(r, ListT(ety))
            return
        rty = self.static_type(e)
        if rty.kind in ('none', 'pyobj', 'pytuple'):
            rty = ANY
        rcode = code_of(rty)
        st, r = self.alloc(st, 'list')
        arr = fresh('comp', z3.ArraySort(IntS, SORTS[rcode]))
        et = self.term(e, rcode)
        # (facts_x / extra are typing facts and definitional facts of the i-th item, true for every index in range:
        #  consequences, not guards - as guards they would leave arr[i] unconstrained wherever they cannot be re-derived)
        st = st.assume(z3.ForAll([i], z3.Implies(z3.And(0 <= i, i < n), z3.And(*(facts_x + extra + [arr[i] == et])))))
        st = self.HS(st, 'La.' + rcode, z3.Store(self.H(st, 'La.' + rcode), r, arr))
        st = self.HS(st, 'Ll', z3.Store(self.H(st, 'Ll'), r, n))
        yield st, SV(r, ListT(rty))

    def comp_filtered(self, node, g, st, fr, seq, kind, i, st_i, n, src, elemty, facts_x):
        """[e(x) for x in xs if p(x)]: abstract sub-sequence R with a strictly increasing ghost index map
        idx: [0,len R) -> [0,n) onto exactly the positions satisfying p, R[k] == e(xs[idx(k)])."""
        if kind == 'set':
            raise OutOfReach('filtered set comprehension')
        ps = []
        st_p = st_i
        for cnd in g.ifs:
            rs = list(self.ev(cnd, st_p, fr))
            if len(rs) != 1 or isinstance(rs[0][1], Raised):
                raise OutOfReach('comprehension filter not pure: %s' % ast.unparse(cnd))
            st_p = rs[0][0]
            t = self.truth(st_p, rs[0][1])
            if t is None:
                raise OutOfReach('comprehension filter needs a call')
            ps.append(t)
        p = self.and_(ps)
        es = list(self.ev(node.elt, st_p, fr))
        if len(es) != 1 or isinstance(es[0][1], Raised):
            raise OutOfReach('comprehension element not pure')
        st_e, e = es[0]
        extra = st_e.pc[len(st_i.pc):]
        rty = self.static_type(e)
        if e.is_py and isinstance(e.py, tuple):
            raise OutOfReach('filtered comprehension building tuples')
        if rty.kind in ('none', 'pyobj', 'pytuple'):
            rty = ANY
        rcode = code_of(rty)
        st, r = self.alloc(st, 'list')
        m = fresh('flen', IntS)
        idx = z3.Function(fresh_name('fidx'), IntS, IntS)      # result position -> source position
        inv = z3.Function(fresh_name('finv'), IntS, IntS)      # source position -> result position (if kept)
        arr = fresh('filt', z3.ArraySort(IntS, SORTS[rcode]))
        kk = fresh('k', IntS)
        k2 = fresh('k2', IntS)

        def subst(t, v):
            return z3.substitute(t, (i, v)) if not isinstance(t, bool) else t
        et = self.term(e, rcode)
        p_i = p if not isinstance(p, bool) else z3.BoolVal(p)
        facts = self.and_(facts_x + extra)
        facts_z = facts if not isinstance(facts, bool) else z3.BoolVal(facts)
        st = st.assume(z3.And(m >= 0, m <= n))
        st = st.assume(z3.ForAll([kk], z3.Implies(z3.And(0 <= kk, kk < m),
                                                  z3.And(0 <= idx(kk), idx(kk) < n, subst(p_i, idx(kk)),
                                                         inv(idx(kk)) == kk,
                                                         z3.Implies(subst(facts_z, idx(kk)), arr[kk] == subst(et, idx(kk)))))))
        st = st.assume(z3.ForAll([kk, k2], z3.Implies(z3.And(0 <= kk, kk < k2, k2 < m), idx(kk) < idx(k2))))
        st = st.assume(z3.ForAll([i], z3.Implies(z3.And(0 <= i, i < n, facts_z, p_i),
                                                 z3.And(0 <= inv(i), inv(i) < m, idx(inv(i)) == i))))
        st = self.HS(st, 'La.' + rcode, z3.Store(self.H(st, 'La.' + rcode), r, arr))
        st = self.HS(st, 'Ll', z3.Store(self.H(st, 'Ll'), r, m))
        st.ghost = dict(st.ghost)
        st.ghost.setdefault('filters', ())
        st.ghost['filters'] = st.ghost['filters'] + ((r, idx, inv, m),)
        return st, SV(r, ListT(rty))

    def iter_source(self, st, obj, fr):
        """list object backing the iteration of `obj` (class hook registered in the world)"""
        hook = self.world.specfuncs.get('iter_list:' + obj.ty.args[0])
        if hook is None:
            raise OutOfReach('iteration over %s' % obj.ty.args[0])
        return hook(self, st, obj)

    def bind_target(self, st, target, val, fr):
        """assignment to a comprehension / for target (names and flat tuples only, no raising)"""
        if isinstance(target, ast.Name):
            return st.set(target.id, val)
        if isinstance(target, ast.Tuple):
            rs = list(self.unpack(st, val, len(target.elts), fr))
            if len(rs) != 1 or isinstance(rs[0][1], Raised):
                raise OutOfReach('target unpacking may fail')
            st1, items = rs[0]
            for t, v in zip(target.elts, items):
                st1 = self.bind_target(st1, t, v, fr)
            return st1
        raise OutOfReach('binding target %s' % type(target).__name__)

    def unpack(self, st, val, n, fr):
        """yields (st, [SV]*n | Raised(ValueError/TypeError))"""
        if val.is_py and isinstance(val.py, tuple):
            if len(val.py) == n:
                yield st, list(val.py)
            else:
                yield self.raise_(st, ValueError, 'unpack')
            return
        if val.is_py and isinstance(val.py, str):
            if len(val.py) == n:
                yield st, [mk(c) for c in val.py]
            else:
                yield self.raise_(st, ValueError, 'unpack')
            return
        if val.is_py and val.py is None:
            yield self.raise_(st, TypeError, 'cannot unpack None')
            return
        if val.is_py:
            raise OutOfReach('unpacking %r' % (val.py,))
        k = val.ty.kind
        if k in ('str', 'bytes'):
            ln = z3.Length(val.term)
            for st1, b in self.branch(st, ln == n):
                if b:
                    yield st1, [SV(z3.SubString(val.term, j, 1), val.ty) for j in range(n)]
                else:
                    yield self.raise_(st1, ValueError, 'unpack')
            return
        if k in ('list', 'tuple'):
            fixed = k == 'tuple' and not (len(val.ty.args) == 2 and val.ty.args[1] is Ellipsis)
            if fixed:
                if len(val.ty.args) != n:
                    yield self.raise_(st, ValueError, 'unpack')
                    return
                arr = self.H(st, 'La.V')[val.term]
                items = []
                for j in range(n):
                    st, u = self.unbox(st, arr[j], val.ty.args[j])
                    items.append(u)
                yield st, items
                return
            ln = self.H(st, 'Ll')[val.term]
            code = self.seq_code(val.ty)
            elemty = self.seq_elem_type(val.ty)
            arr = self.H(st, 'La.' + code)[val.term]
            for st1, b in self.branch(st, ln == n):
                if b:
                    items = []
                    for j in range(n):
                        if code == 'V' and code_of(elemty) != 'V':
                            st1, u = self.unbox(st1, arr[j], elemty)
                        else:
                            st1, u = self.from_heap(st1, arr[j], elemty)
                        items.append(u)
                    yield st1, items
                else:
                    yield self.raise_(st1, ValueError, 'unpack')
            return
        if k == 'obj' and val.ty.args[0] in getattr(self.world, 'tuple_records', {}):
            fields = self.world.tuple_records[val.ty.args[0]]
            if len(fields) != n or self.record_len(st, val) is not None:
                raise OutOfReach('unpacking a %s record into %d names' % (val.ty.args[0], n))
            items = []
            for f in fields:
                st, u = self.read_field(st, val, f)
                items.append(u)
            yield st, items
            return
        if k == 'opt':
            for st1, b in self.branch(st, self.is_none(val)):
                if b:
                    yield self.raise_(st1, TypeError, 'cannot unpack None')
                else:
                    inner = val.ty.args[0]
                    if inner.is_ref:
                        u = SV(val.term, inner)
                    else:
                        st1, u = self.unbox(st1, val.term, inner)
                    for r in self.unpack(st1, u, n, fr):
                        yield r
            return
        raise OutOfReach('unpacking %r' % (val,))


class SymSetComp(object):
    """{e(x) for x in xs}: membership predicate  s in S  <=>  exists i in [0,n). e(xs[i]) == s"""

    def __init__(self, ex, st, seq, i, n, e, facts):
        self.ex, self.seq, self.i, self.n, self.e, self.facts = ex, seq, i, n, e, facts

    def member(self, s_term):
        ex = self.ex
        et = ex.term(self.e, 'V')
        j = fresh('m', IntS)
        body = z3.And(0 <= j, j < self.n, *[z3.substitute(f, (self.i, j)) for f in self.facts] +
                      [z3.substitute(et, (self.i, j)) == s_term])
        return z3.Exists([j], body)
