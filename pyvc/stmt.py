"""Statement execution: path enumeration, exceptions as outcomes, loops cut at contract invariants."""
import ast
import z3

from .tys import *     # noqa
from .engine import (SV, mk, NOPY, NONE_SV, PYOBJ, ExcVal, Raised, OutOfReach, Val, VNONE, SORTS, IntS, BoolS, StrS,
                     code_of, fresh, fresh_name, VC)
from .expr import (BoundMethod, BoundBuiltin, LambdaV, GenV, PyDict, CondSet, DictKeys, DictItems, DictValues,
                   CondList, EnumV, RangeV, ReversedV)

FALL = ('fall',)


class StmtMixin(object):
    MAX_UNROLL = 12

    def exec_block(self, stmts, st, fr):
        """yields (st, outcome); outcome in ('fall',) ('return', SV) ('raise', ExcVal) ('break',) ('continue',)"""
        if not stmts:
            yield st, FALL
            return
        for st1, out in self.exec_stmt(stmts[0], st, fr):
            if out[0] == 'fall':
                for r in self.exec_block(stmts[1:], st1, fr):
                    yield r
            else:
                yield st1, out

    def exec_stmt(self, s, st, fr):
        m = getattr(self, 'st_' + type(s).__name__, None)
        if m is None:
            raise OutOfReach('statement %s' % type(s).__name__)
        return m(s, st, fr)

    def st_Pass(self, s, st, fr):
        yield st, FALL

    def st_Expr(self, s, st, fr):
        for st1, v in self.ev(s.value, st, fr):
            if isinstance(v, Raised):
                yield st1, ('raise', v.exc)
            else:
                yield st1, FALL

    def st_Return(self, s, st, fr):
        if s.value is None:
            yield st, ('return', NONE_SV)
            return
        for st1, v in self.ev(s.value, st, fr):
            if isinstance(v, Raised):
                yield st1, ('raise', v.exc)
            else:
                yield st1, ('return', v)

    def st_Break(self, s, st, fr):
        yield st, ('break',)

    def st_Continue(self, s, st, fr):
        yield st, ('continue',)

    def st_Global(self, s, st, fr):
        st1 = st.copy()
        st1.ghost['globals_decl'] = st1.ghost.get('globals_decl', ()) + tuple(s.names)
        yield st1, FALL

    def st_Import(self, s, st, fr):
        import importlib
        st1 = st
        for a in s.names:
            mod = importlib.import_module(a.name)
            st1 = st1.set(a.asname or a.name.split('.')[0], mk(mod if a.asname else importlib.import_module(a.name.split('.')[0])))
        yield st1, FALL

    def st_ImportFrom(self, s, st, fr):
        import importlib
        mod = importlib.import_module(s.module)
        st1 = st
        for a in s.names:
            st1 = st1.set(a.asname or a.name, mk(getattr(mod, a.name)))
        yield st1, FALL

    def st_FunctionDef(self, s, st, fr):
        # nested function: closure object capturing the frame; free variables are resolved at call time against
        # the *current* locals of the defining activation (closures here only read them)
        yield st.set(s.name, mk(NestedFunc(s, fr))), FALL

    def st_Assert(self, s, st, fr):
        for st1, v in self.ev(s.test, st, fr):
            if isinstance(v, Raised):
                yield st1, ('raise', v.exc)
                continue
            for st2, c in self.cond(st1, v, fr):
                if isinstance(c, Raised):
                    yield st2, ('raise', c.exc)
                    continue
                for st3, b in self.branch(st2, c):
                    if b:
                        yield st3, FALL
                    else:
                        yield st3, ('raise', ExcVal(AssertionError, [], node=s))

    def st_Raise(self, s, st, fr):
        if s.exc is None:
            cur = st.ghost.get('handling')
            if cur is None:
                raise OutOfReach('bare raise outside handler')
            yield st, ('raise', cur)
            return
        for st1, v in self.ev(s.exc, st, fr):
            if isinstance(v, Raised):
                yield st1, ('raise', v.exc)
                continue
            if v.is_py and isinstance(v.py, ExcVal):
                yield st1, ('raise', v.py)
            elif v.is_py and isinstance(v.py, type) and issubclass(v.py, BaseException):
                yield st1, ('raise', ExcVal(v.py, [], node=s))
            elif not v.is_py and v.ty.kind == 'obj' and v.ty.args[0] in self.world.classes \
                    and issubclass(self.world.classes[v.ty.args[0]], BaseException):
                # raising an exception object stored in the heap (e.g. errors[0])
                cands = self.world.subclasses(v.ty.args[0])
                cls = self.H(st1, 'cls')
                for n in cands:
                    for st2, b in self.branch(st1, cls[v.term] == self.world.cid(n)):
                        if b:
                            yield st2, ('raise', ExcVal(self.world.classes[n], [], addr=v.term, node=s))
            elif not v.is_py and v.ty.kind == 'any' and 'DynamicException' in self.world.classes:
                # raising a dynamically typed value (an exception object kept in a list of anything): its class is not
                # tracked - reported under the pseudo-class DynamicException, which a contract must declare by name
                yield st1, ('raise', ExcVal(self.world.classes['DynamicException'], [], node=s))
            else:
                raise OutOfReach('raise of %r' % (v,))

    def st_If(self, s, st, fr):
        for st1, v in self.ev(s.test, st, fr):
            if isinstance(v, Raised):
                yield st1, ('raise', v.exc)
                continue
            for st2, c in self.cond(st1, v, fr):
                if isinstance(c, Raised):
                    yield st2, ('raise', c.exc)
                    continue
                if self.mergeable_if(s) and not isinstance(c, bool):
                    merged = self.merged_if(s, st2, c, fr)
                    if merged is not None:
                        yield merged, FALL
                        continue
                for st3, b in self.branch(st2, c):
                    for r in self.exec_block(s.body if b else s.orelse, st3, fr):
                        yield r

    def mergeable_if(self, s):
        """`if c: d[K] = v` (no else; the body is one store into a subscript with constant key): the two outcomes differ
        only in heap arrays and are joined into one state instead of doubling the paths"""
        if s.orelse or len(s.body) != 1 or not isinstance(s.body[0], ast.Assign):
            return False
        a = s.body[0]
        return len(a.targets) == 1 and isinstance(a.targets[0], ast.Subscript) and isinstance(a.targets[0].slice, ast.Constant) \
            and isinstance(a.targets[0].value, ast.Name) and isinstance(a.value, (ast.Name, ast.Constant))

    def merged_if(self, s, st, c, fr):
        cz = z3.simplify(c)
        if z3.is_true(cz) or z3.is_false(cz):
            return None
        st_t = st.assume(cz)
        if not self.feasible(st_t) or not self.feasible(st.assume(z3.Not(cz))):
            return None
        outs = list(self.exec_block(s.body, st_t, fr))
        if len(outs) != 1 or outs[0][1][0] != 'fall':
            return None
        sa = outs[0][0]
        if set(sa.locals) != set(st.locals) or any(sa.locals[k] is not st.locals[k] for k in st.locals):
            return None
        if any(k.startswith('shadow:') or k.startswith('ddefault:') for k in set(sa.ghost) ^ set(st.ghost)):
            return None
        m = st.copy()
        npc = len(st.pc) + 1
        m.pc.extend(z3.Implies(cz, f) for f in sa.pc[npc:])
        for k in sa.heap:
            old = self.H(m, k) if k not in st.heap else st.heap[k]
            if k in ('next', 'cls') and not sa.heap[k].eq(old):
                return None         # an allocation inside the branch: not merged
            if not sa.heap[k].eq(old):
                m.heap[k] = z3.If(cz, sa.heap[k], old)
        # a dict whose key set the engine tracks loses that tracking for the conditionally stored key
        for k in list(m.ghost):
            if k.startswith('shadow:') and sa.ghost.get(k) != st.ghost.get(k):
                del m.ghost[k]
        return m

    # ------------------------------------------------------------------ assignment
    def st_Assign(self, s, st, fr):
        c = getattr(self, 'cur_contract', None)
        if c is not None and c.local_types and isinstance(s.value, ast.List) and not s.value.elts and len(s.targets) == 1 \
                and isinstance(s.targets[0], ast.Name) and s.targets[0].id in c.local_types and not self.call_stack:
            # an empty list literal has no element type of its own: the contract declares it
            from .tys import parse_type
            ty = parse_type(c.local_types[s.targets[0].id])
            st1, v = self.new_list(st, [], ty.args[0])
            yield st1.set(s.targets[0].id, v), FALL
            return
        declared = None
        if c is not None and c.local_types and isinstance(s.value, ast.Dict) and len(s.targets) == 1 \
                and isinstance(s.targets[0], ast.Name) and s.targets[0].id in c.local_types and not self.call_stack:
            # a dict display takes the value type the contract declares for the local (default: the join of its values)
            from .tys import parse_type
            declared = parse_type(c.local_types[s.targets[0].id]).args[0]
        self._dict_valty = declared
        try:
            results = list(self.ev(s.value, st, fr))
        finally:
            self._dict_valty = None
        for st1, v in results:
            if isinstance(v, Raised):
                yield st1, ('raise', v.exc)
                continue
            for r in self.assign_targets(s.targets, st1, v, fr):
                yield r

    def assign_targets(self, targets, st, v, fr):
        if not targets:
            yield st, FALL
            return
        for st1, out in self.assign(targets[0], st, v, fr):
            if out[0] != 'fall':
                yield st1, out
            else:
                for r in self.assign_targets(targets[1:], st1, v, fr):
                    yield r

    def st_AnnAssign(self, s, st, fr):
        raise OutOfReach('annotated assignment')

    def assign(self, target, st, v, fr):
        if isinstance(target, ast.Name):
            if target.id in st.ghost.get('globals_decl', ()):
                gk = '%s:%s' % (fr.module.__name__, target.id)
                if gk not in self.world.globals_schema:
                    raise OutOfReach('store to global %s not in schema' % gk)
                st1 = self.HS(st, 'g.' + gk, self.term(v, code_of(self.world.globals_schema[gk])))
                st1.ghost['writes_globals'] = st1.ghost.get('writes_globals', ()) + (gk,)
                yield st1, FALL
                return
            yield st.set(target.id, v), FALL
        elif isinstance(target, (ast.Tuple, ast.List)):
            for st1, items in self.unpack(st, v, len(target.elts), fr):
                if isinstance(items, Raised):
                    yield st1, ('raise', items.exc)
                    continue

                def go(i, st):
                    if i == len(items):
                        yield st, FALL
                        return
                    for st2, out in self.assign(target.elts[i], st, items[i], fr):
                        if out[0] != 'fall':
                            yield st2, out
                        else:
                            for r in go(i + 1, st2):
                                yield r
                for r in go(0, st1):
                    yield r
        elif isinstance(target, ast.Attribute):
            for st1, base in self.ev(target.value, st, fr):
                if isinstance(base, Raised):
                    yield st1, ('raise', base.exc)
                    continue
                for st2, r in self.setattr_(st1, base, target.attr, v, fr):
                    yield st2, (('raise', r.exc) if isinstance(r, Raised) else FALL)
        elif isinstance(target, ast.Subscript):
            for st1, base in self.ev(target.value, st, fr):
                if isinstance(base, Raised):
                    yield st1, ('raise', base.exc)
                    continue
                if isinstance(target.slice, ast.Slice):
                    raise OutOfReach('slice assignment')
                for st2, idx in self.ev(target.slice, st1, fr):
                    if isinstance(idx, Raised):
                        yield st2, ('raise', idx.exc)
                        continue
                    for st3, r in self.setitem(st2, base, idx, v, fr, target):
                        yield st3, (('raise', r.exc) if isinstance(r, Raised) else FALL)
        else:
            raise OutOfReach('assignment target %s' % type(target).__name__)

    def setitem(self, st, base, idx, v, fr, target=None):
        if base.is_py:
            if isinstance(base.py, PyDict) and idx.is_py and isinstance(idx.py, str) and target is not None \
                    and isinstance(target.value, ast.Name):
                d = dict(base.py.items)
                d[idx.py] = v
                yield st.set(target.value.id, mk(PyDict(d))), None
                return
            raise OutOfReach('item store on python object %r' % (base.py,))
        k = base.ty.kind
        if k == 'dict':
            yield self.dict_store(st, base, idx, v), None
        elif k == 'list':
            i = self.int_of(idx)
            n = self.H(st, 'Ll')[base.term]
            j, ok = self.norm_index(i, n)
            code = self.seq_code(base.ty)
            self.check_assignable(v, self.seq_elem_type(base.ty), 'list element')
            for st1, b in self.branch(st, ok):
                if b:
                    st1, t = self.store_term(st1, v, code)
                    arr = self.H(st1, 'La.' + code)
                    st1 = self.HS(st1, 'La.' + code, z3.Store(arr, base.term, z3.Store(arr[base.term], j, t)))
                    yield st1, None
                else:
                    yield self.raise_(st1, IndexError, 'list assignment index out of range')
        elif k == 'obj':
            for st1, r in self.call_method(st, base, '__setitem__', [idx, v], {}, fr):
                yield st1, (r if isinstance(r, Raised) else None)
        elif k == 'tuple':
            yield self.raise_(st, TypeError, 'tuple does not support item assignment')
        else:
            raise OutOfReach('item store on %r' % (base,))

    def st_AugAssign(self, s, st, fr):
        load = ast.copy_location(_as_load(s.target), s.target)
        for st1, cur in self.ev(load, st, fr):
            if isinstance(cur, Raised):
                yield st1, ('raise', cur.exc)
                continue
            for st2, rhs in self.ev(s.value, st1, fr):
                if isinstance(rhs, Raised):
                    yield st2, ('raise', rhs.exc)
                    continue
                if not cur.is_py and cur.ty.kind == 'list' and isinstance(s.op, ast.Add):
                    raise OutOfReach('list += (in-place)')
                for st3, v in self.binop(st2, s.op, cur, rhs, fr):
                    if isinstance(v, Raised):
                        yield st3, ('raise', v.exc)
                        continue
                    for r in self.assign(s.target, st3, v, fr):
                        yield r

    def st_Delete(self, s, st, fr):
        def go(i, st):
            if i == len(s.targets):
                yield st, FALL
                return
            t = s.targets[i]
            if isinstance(t, ast.Subscript):
                for st1, base in self.ev(t.value, st, fr):
                    if isinstance(base, Raised):
                        yield st1, ('raise', base.exc)
                        continue
                    for st2, idx in self.ev(t.slice, st1, fr):
                        if isinstance(idx, Raised):
                            yield st2, ('raise', idx.exc)
                            continue
                        for st3, r in self.delitem(st2, base, idx, fr):
                            if isinstance(r, Raised):
                                yield st3, ('raise', r.exc)
                            else:
                                for x in go(i + 1, st3):
                                    yield x
            elif isinstance(t, ast.Attribute):
                for st1, base in self.ev(t.value, st, fr):
                    if isinstance(base, Raised):
                        yield st1, ('raise', base.exc)
                        continue
                    for st2, r in self.delattr_(st1, base, t.attr, fr):
                        if isinstance(r, Raised):
                            yield st2, ('raise', r.exc)
                        else:
                            for x in go(i + 1, st2):
                                yield x
            else:
                raise OutOfReach('del target')
        return go(0, st)

    def delitem(self, st, base, idx, fr):
        if base.is_py:
            raise OutOfReach('del item on python object')
        k = base.ty.kind
        if k == 'dict':
            for r in self.dict_delete(st, base, idx):
                yield r
        elif k == 'list':
            for st1, r in self.list_method(st, base, 'pop', [idx], {}, fr):
                yield st1, (r if isinstance(r, Raised) else None)
        elif k == 'obj':
            for st1, r in self.call_method(st, base, '__delitem__', [idx], {}, fr):
                yield st1, (r if isinstance(r, Raised) else None)
        else:
            raise OutOfReach('del item on %r' % (base,))

    # ------------------------------------------------------------------ try
    def st_Try(self, s, st, fr):
        for st1, out in self.exec_block(s.body, st, fr):
            if out[0] == 'raise':
                exc = out[1]
                handled = False
                for h in s.handlers:
                    m = self.handler_matches(h, exc, st1, fr)
                    if m:
                        handled = True
                        st2 = st1
                        if h.name:
                            st2 = st2.set(h.name, mk(exc))
                        st2 = st2.copy()
                        prev = st2.ghost.get('handling')
                        st2.ghost['handling'] = exc
                        for st3, out3 in self.exec_block(h.body, st2, fr):
                            st3 = st3.copy()
                            st3.ghost['handling'] = prev
                            for r in self.run_finally(s, st3, out3, fr):
                                yield r
                        break
                if not handled:
                    for r in self.run_finally(s, st1, out, fr):
                        yield r
            elif out[0] == 'fall':
                if s.orelse:
                    for st2, out2 in self.exec_block(s.orelse, st1, fr):
                        for r in self.run_finally(s, st2, out2, fr):
                            yield r
                else:
                    for r in self.run_finally(s, st1, out, fr):
                        yield r
            else:
                for r in self.run_finally(s, st1, out, fr):
                    yield r

    def run_finally(self, s, st, out, fr):
        if not s.finalbody:
            yield st, out
            return
        for st1, out1 in self.exec_block(s.finalbody, st, fr):
            if out1[0] == 'fall':
                yield st1, out
            else:
                yield st1, out1

    def handler_matches(self, h, exc, st, fr):
        if h.type is None:
            return True
        rs = list(self.ev(h.type, st, fr))
        if len(rs) != 1 or isinstance(rs[0][1], Raised) or not rs[0][1].is_py:
            raise OutOfReach('except clause type')
        t = rs[0][1].py
        classes = tuple(x.py for x in t) if isinstance(t, tuple) else (t,)
        return issubclass(exc.cls, classes)

    # ------------------------------------------------------------------ with
    def st_With(self, s, st, fr):
        raise OutOfReach('with statement')

    # ------------------------------------------------------------------ loops
    def st_For(self, s, st, fr):
        for st1, seq in self.ev(s.iter, st, fr):
            if isinstance(seq, Raised):
                yield st1, ('raise', seq.exc)
                continue
            for r in self.for_over(s, st1, fr, seq):
                yield r

    def concrete_items(self, st, seq):
        """list of SVs if the sequence has a concrete shape, else None"""
        if seq.is_py:
            v = seq.py
            if isinstance(v, tuple):
                return list(v)
            if isinstance(v, (list, frozenset)):
                return [mk(x) for x in (sorted(v) if isinstance(v, frozenset) else v)]
            if isinstance(v, str):
                return [mk(c) for c in v]
            if isinstance(v, RangeV) and v.lo.is_py and v.hi.is_py:
                return [mk(i) for i in range(v.lo.py, v.hi.py)]
            if isinstance(v, EnumV):
                inner = self.concrete_items(st, v.seq)
                if inner is not None:
                    return [SV(None, Ty('pytuple'), (mk(i), x)) for i, x in enumerate(inner)]
            if isinstance(v, PyDict):
                return [mk(k) for k in v.items]
            if isinstance(v, DictItems) and v.d.is_py and isinstance(v.d.py, PyDict):
                return [SV(None, Ty('pytuple'), (mk(k), x)) for k, x in v.d.py.items.items()]
        elif seq.ty.kind == 'tuple' and not (len(seq.ty.args) == 2 and seq.ty.args[1] is Ellipsis):
            arr = self.H(st, 'La.V')[seq.term]
            out = []
            for j, t in enumerate(seq.ty.args):
                st, u = self.unbox(st, arr[j], t)
                out.append(u)
            return out
        return None

    def for_over(self, s, st, fr, seq):
        items = self.concrete_items(st, seq)
        ordinal = self.loop_ordinal(s)
        spec = self.loop_spec(ordinal, s)
        if items is not None and spec is None:
            if len(items) > self.MAX_UNROLL:
                raise OutOfReach('unrolling %d iterations' % len(items))
            return self.unroll(s, st, fr, items, 0)
        if spec is None:
            raise OutOfReach('loop #%d (%s) has no invariant in the contract' % (ordinal, _hdr(s)))
        return self.cut_loop(s, st, fr, seq, spec, ordinal)

    def unroll(self, s, st, fr, items, i):
        if i == len(items):
            for r in self.exec_block(s.orelse, st, fr):
                yield r
            return
        for st1, out in self.assign(s.target, st, items[i], fr):
            if out[0] != 'fall':
                yield st1, out
                continue
            for st2, out2 in self.exec_block(s.body, st1, fr):
                if out2[0] in ('fall', 'continue'):
                    for r in self.unroll(s, st2, fr, items, i + 1):
                        yield r
                elif out2[0] == 'break':
                    yield st2, FALL
                else:
                    yield st2, out2

    def loop_ordinal(self, s):
        return self.loop_index.get(id(s), -1)

    def loop_spec(self, ordinal, s):
        c = getattr(self, 'cur_contract', None)
        if c is None or not c.loops:
            return None
        sp = c.loops.get(ordinal)
        if sp is None:
            return None
        if sp.get('header') and sp['header'] != _hdr(s):
            raise OutOfReach('loop #%d header drifted: contract has %r, code has %r' % (ordinal, sp['header'], _hdr(s)))
        return sp

    def st_While(self, s, st, fr):
        ordinal = self.loop_ordinal(s)
        spec = self.loop_spec(ordinal, s)
        if spec is None:
            raise OutOfReach('while loop #%d has no invariant in the contract' % ordinal)
        return self.cut_while(s, st, fr, spec, ordinal)


class NestedFunc(object):
    def __init__(self, node, fr):
        self.node = node
        self.fr = fr


def _as_load(t):
    import copy
    t2 = copy.deepcopy(t)
    for n in ast.walk(t2):
        if hasattr(n, 'ctx'):
            n.ctx = ast.Load()
    return t2


def _hdr(s):
    if isinstance(s, ast.For):
        return 'for %s in %s' % (ast.unparse(s.target), ast.unparse(s.iter))
    return 'while %s' % ast.unparse(s.test)
