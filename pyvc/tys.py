"""Static types used by the symbolic executor (Python is dynamically typed; contracts and the
field schema supply the types the verifier needs, as in any verifier for a dynamic language)."""
import re


class Ty(object):
    __slots__ = ('kind', 'args')

    def __init__(self, kind, *args):
        self.kind = kind
        self.args = args

    def __repr__(self):
        if not self.args:
            return self.kind
        return '%s[%s]' % (self.kind, ','.join(repr(a) for a in self.args))

    def __eq__(self, o):
        return isinstance(o, Ty) and self.kind == o.kind and self.args == o.args

    def __hash__(self):
        return hash((self.kind, self.args))

    @property
    def is_ref(self):
        return self.kind in ('list', 'tuple', 'dict', 'obj', 'set') or (self.kind == 'opt' and self.args[0].is_ref)

    @property
    def inner(self):
        return self.args[0]


INT = Ty('int')
BOOL = Ty('bool')
STR = Ty('str')
BYTES = Ty('bytes')
NONE = Ty('none')
ANY = Ty('any')


def Opt(t):
    if t.kind in ('opt', 'any', 'none'):
        return t
    return Ty('opt', t)


def ListT(t):
    return Ty('list', t)


def DictT(v):
    return Ty('dict', v)


def SetT(t):
    return Ty('set', t)


def TupleT(*elems):
    return Ty('tuple', *elems)


def TupleVar(elem):
    return Ty('tuple', elem, Ellipsis)


def ObjT(name):
    return Ty('obj', name)


def sort_code(t):
    """'I' Int, 'B' Bool, 'S' String, 'V' Val"""
    k = t.kind
    if k == 'int':
        return 'I'
    if k == 'bool':
        return 'B'
    if k in ('str', 'bytes'):
        return 'S'
    if k in ('list', 'tuple', 'dict', 'obj', 'set'):
        return 'I'
    if k == 'opt':
        return 'I' if t.args[0].is_ref else 'V'
    if k == 'none':
        return 'I'
    return 'V'


_tok = re.compile(r'\s*([A-Za-z_][A-Za-z_0-9]*|\[|\]|,|\?|\.\.\.)')


def parse_type(s):
    toks = _tok.findall(s)
    pos = [0]

    def peek():
        return toks[pos[0]] if pos[0] < len(toks) else None

    def eat(x=None):
        t = peek()
        if x is not None and t != x:
            raise ValueError('type syntax: %r (expected %s at %d)' % (s, x, pos[0]))
        pos[0] += 1
        return t

    def parse():
        name = eat()
        if name == 'int':
            t = INT
        elif name == 'bool':
            t = BOOL
        elif name == 'str':
            t = STR
        elif name == 'bytes':
            t = BYTES
        elif name == 'any':
            t = ANY
        elif name == 'none':
            t = NONE
        elif name in ('list', 'dict', 'set', 'tuple'):
            eat('[')
            args = [parse()]
            var = False
            while peek() == ',':
                eat(',')
                if peek() == '...':
                    eat('...')
                    var = True
                else:
                    args.append(parse())
            eat(']')
            if name == 'list':
                t = ListT(args[0])
            elif name == 'dict':
                t = DictT(args[-1])
            elif name == 'set':
                t = SetT(args[0])
            else:
                t = TupleVar(args[0]) if var else TupleT(*args)
        else:
            t = ObjT(name)
        while peek() == '?':
            eat('?')
            t = Opt(t)
        return t
    r = parse()
    if pos[0] != len(toks):
        raise ValueError('type syntax: %r' % s)
    return r
