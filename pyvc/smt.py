"""SMT-LIB2 emission and the solver portfolio (subprocesses with hard timeouts; the z3 Python API is
never used to decide an obligation)."""
import hashlib
import os
import subprocess
import tempfile
import time
import z3

SOLVERS = [
    ('z3-4.8.12', ['/usr/bin/z3', '-smt2']),
    ('z3-5.1.0', ['z3-new', '-smt2']),
    ('cvc5-1.0.3', ['/usr/bin/cvc5', '--strings-exp', '--lang=smt2']),
]


def decl_names(exprs):
    """names of the uninterpreted functions / constants occurring in the expressions"""
    seen = set()
    names = set()
    stack = list(exprs)
    while stack:
        e = stack.pop()
        i = e.get_id()
        if i in seen:
            continue
        seen.add(i)
        if z3.is_quantifier(e):
            stack.append(e.body())
        elif z3.is_app(e):
            d = e.decl()
            if d.kind() == z3.Z3_OP_UNINTERPRETED:
                names.add(d.name())
            stack.extend(e.children())
    return names


def relevant_axioms(vc, axioms):
    """only the axioms whose uninterpreted symbols all... at least one occur in the VC (transitively)"""
    used = decl_names(list(vc.assumptions) + [vc.goal])
    ax = [(a, decl_names([a])) for a in axioms]
    out = []
    changed = True
    while changed:
        changed = False
        for a, ns in ax:
            if any(a is o for o in out):
                continue
            if ns & used:
                out.append(a)
                if not ns <= used:
                    used |= ns
                    changed = True
    return out


def vc_to_smt2(vc, axioms, produce_models=False):
    s = z3.Solver()
    for a in relevant_axioms(vc, axioms):
        s.add(a)
    for a in vc.assumptions:
        s.add(a)
    s.add(z3.Not(vc.goal))
    txt = s.to_smt2()
    head = '(set-logic ALL)\n'
    if produce_models:
        head = '(set-option :produce-models true)\n' + head
        txt = txt.replace('(check-sat)', '(check-sat)\n(get-model)')
    return head + txt


def run_solver(cmd, path, timeout):
    t0 = time.time()
    try:
        if cmd[0].endswith('cvc5'):
            full = cmd + ['--tlimit=%d' % int(timeout * 1000), path]
        else:
            full = cmd + ['-T:%d' % int(timeout), path]
        p = subprocess.run(full, stdout=subprocess.PIPE, stderr=subprocess.PIPE, timeout=timeout + 2, text=True)
        out = p.stdout.strip()
        first = out.split('\n', 1)[0].strip() if out else ''
        if first in ('sat', 'unsat', 'unknown'):
            return first, time.time() - t0, out
        if first.startswith('timeout') or 'timeout' in first or 'interrupted' in out[:200]:
            return 'timeout', time.time() - t0, ''
        return 'error', time.time() - t0, (out + '\n' + p.stderr)[:2000]
    except subprocess.TimeoutExpired:
        return 'timeout', time.time() - t0, ''
    except OSError as e:
        return 'error', time.time() - t0, str(e)


def discharge(smt2, timeout=10, want_model=False, workdir=None):
    """run the portfolio sequentially (the caller parallelises over VCs); first definite answer wins.
    returns dict(status, solver, seconds, per_solver, model_text)"""
    workdir = workdir or tempfile.gettempdir()
    h = hashlib.sha1(smt2.encode()).hexdigest()[:16]
    path = os.path.join(workdir, 'vc_%s_%d.smt2' % (h, os.getpid()))
    with open(path, 'w') as f:
        f.write(smt2)
    per = []
    status, solver, model = 'unknown', None, ''
    total = 0.0
    try:
        # quick pass with a short budget on every solver, then the full budget
        for budget in (min(2.0, timeout), timeout):
            for name, cmd in SOLVERS:
                if any(p[0] == name and p[1] in ('sat', 'unsat') for p in per):
                    continue
                r, secs, out = run_solver(cmd, path, budget)
                per.append((name, r, round(secs, 3)))
                total += secs
                if r in ('sat', 'unsat'):
                    status, solver = r, name
                    if r == 'sat':
                        model = out
                    break
            if status in ('sat', 'unsat'):
                break
            if budget == timeout:
                break
    finally:
        try:
            os.unlink(path)
        except OSError:
            pass
    return {'status': status, 'solver': solver, 'seconds': round(total, 3), 'per_solver': per, 'model': model}
