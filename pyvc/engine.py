"""pyvc - verification-condition generator for a subset of Python, by symbolic execution of the
real AST (see DESIGN.md section 2.3).  One path = one list of z3 assumptions; obligations are
emitted as (assumptions, goal) pairs and discharged outside this module by external solvers.

Semantics assumed (stated in every evidence file):
  * ints are mathematical integers (exact for Python);
  * the heap is well-typed w.r.t. contracts/schema.py (field and container element types);
  * objects handed to a verified method are fully constructed (hasattr(self, <schema field>) holds);
  * termination is not proved.
"""
import ast
import builtins as _bi
import itertools
import z3

from .tys import *          # noqa
from . import source

z3.set_param('pp.max_depth', 100000)


class OutOfReach(Exception):
    """construct outside the supported subset: the function is not verified (never approximated)"""


IntS, BoolS, StrS = z3.IntSort(), z3.BoolSort(), z3.StringSort()
_Val = z3.Datatype('Val')
_Val.declare('VInt', ('ival', IntS))
_Val.declare('VBool', ('bval', BoolS))
_Val.declare('VStr', ('sval', StrS))
_Val.declare('VRef', ('addr', IntS))
Val = _Val.create()
VNONE = Val.VRef(z3.IntVal(0))

SORTS = {'I': IntS, 'R': IntS, 'B': BoolS, 'S': StrS, 'V': Val}


def code_of(ty):
    c = sort_code(ty)
    if c == 'I' and ty.kind != 'int':
        return 'R'
    return c


NOPY = type('NOPY', (), {'__repr__': lambda s: 'NOPY'})()


class SV(object):
    """symbolic value: z3 term + static type, or a concrete Python value (py)"""
    __slots__ = ('term', 'ty', 'py')

    def __init__(self, term=None, ty=None, py=NOPY):
        self.term = term
        self.ty = ty
        self.py = py

    @property
    def is_py(self):
        return self.py is not NOPY

    def __repr__(self):
        if self.is_py:
            return 'SV(py=%r)' % (self.py,)
        return 'SV(%s : %r)' % (self.term, self.ty)


class PyObj(object):
    """marker type for engine-level Python objects (classes, functions, modules...)"""


PYOBJ = Ty('pyobj')


def mk(v):
    """concrete python value -> SV"""
    if isinstance(v, SV):
        return v
    if isinstance(v, bool):
        return SV(None, BOOL, v)
    if isinstance(v, int):
        return SV(None, INT, v)
    if isinstance(v, str):
        return SV(None, STR, v)
    if isinstance(v, bytes):
        return SV(None, BYTES, v.decode('latin-1'))
    if v is None:
        return SV(None, NONE, None)
    if isinstance(v, tuple):
        return SV(None, Ty('pytuple'), tuple(mk(x) for x in v))
    return SV(None, PYOBJ, v)


NONE_SV = mk(None)


class ExcVal(object):
    def __init__(self, cls, args=(), addr=None, node=None):
        self.cls = cls
        self.args = list(args)
        self.addr = addr
        self.node = node

    def __repr__(self):
        return 'Exc(%s)' % self.cls.__name__


class Raised(object):
    __slots__ = ('exc',)

    def __init__(self, exc):
        self.exc = exc


class VC(object):
    def __init__(self, name, assumptions, goal, kind='post', info=None):
        self.name = name
        self.assumptions = list(assumptions)
        self.goal = goal
        self.kind = kind
        self.info = info or {}


class State(object):
    __slots__ = ('locals', 'heap', 'pc', 'ghost', 'depth')

    def __init__(self):
        self.locals = {}
        self.heap = {}
        self.pc = []
        self.ghost = {}
        self.depth = 0

    def copy(self):
        s = State()
        s.locals = dict(self.locals)
        s.heap = dict(self.heap)
        s.pc = list(self.pc)
        s.ghost = dict(self.ghost)
        s.depth = self.depth
        return s

    def assume(self, c):
        s = self.copy()
        s.pc.append(c)
        return s

    def set(self, name, v):
        s = self.copy()
        s.locals[name] = v
        return s


_fresh = itertools.count()


def fresh_name(base):
    return '%s!%d' % (base, next(_fresh))


def fresh(base, sort):
    return z3.Const(fresh_name(base), sort)


class Frame(object):
    """static context of the function being executed"""

    def __init__(self, fs, module_obj, cls_obj=None, closure=None):
        self.fs = fs
        self.module = module_obj
        self.cls = cls_obj
        self.closure = closure or {}


# ---------------------------------------------------------------------------------------------
class World(object):
    """class table, field schema, contracts; filled by contracts/*.py"""

    def __init__(self):
        self.classes = {}          # name -> python class object
        self.class_ids = {}        # name -> int
        self.schema = {}           # 'attr' or 'Class.attr' -> Ty
        self.contracts = {}        # key -> Contract
        self.globals_schema = {}   # 'module:NAME' -> Ty   (mutable module globals modelled in the heap)
        self.specfuncs = {}        # name -> callable(ex, st, *args) -> SV
        self.axioms = []           # callables(ex) -> list of z3 axioms (global, about uninterpreted functions)
        self.transparent = set()   # keys always inlined
        for i, n in enumerate(['list', 'tuple', 'dict', 'set', 'object']):
            self.class_ids[n] = i + 1

    def add_class(self, cls):
        n = cls.__name__
        if n in self.classes and self.classes[n] is not cls:
            raise ValueError('duplicate class name %s' % n)
        self.classes[n] = cls
        if n not in self.class_ids:
            self.class_ids[n] = len(self.class_ids) + 1

    def cid(self, name):
        return self.class_ids[name]

    def subclass_ids(self, name):
        if name in ('list', 'tuple', 'dict', 'set', 'object'):
            return [self.class_ids[name]]
        base = self.classes[name]
        return [self.class_ids[n] for n, c in self.classes.items() if issubclass(c, base)]

    def subclasses(self, name):
        base = self.classes[name]
        return [n for n, c in self.classes.items() if issubclass(c, base)]

    def field_type(self, clsname, attr):
        if clsname is not None and clsname in self.classes:
            for k in self.classes[clsname].__mro__:
                t = self.schema.get('%s.%s' % (k.__name__, attr))
                if t is not None:
                    return t
        elif clsname is not None:
            t = self.schema.get('%s.%s' % (clsname, attr))
            if t is not None:
                return t
        return self.schema.get(attr)

    def field_key(self, clsname, attr):
        """heap array name of the field (class-qualified if the schema qualifies it)"""
        if clsname is not None and clsname in self.classes:
            for k in self.classes[clsname].__mro__:
                if '%s.%s' % (k.__name__, attr) in self.schema:
                    return 'f.%s.%s' % (k.__name__, attr)
        elif clsname is not None and '%s.%s' % (clsname, attr) in self.schema:
            return 'f.%s.%s' % (clsname, attr)
        return 'f.' + attr


_QCACHE = {}


def _has_quantifier(e):
    i = e.get_id()
    r = _QCACHE.get(i)
    if r is not None:
        return r
    if z3.is_quantifier(e):
        r = True
    else:
        r = any(_has_quantifier(c) for c in e.children())
    _QCACHE[i] = r
    return r


class Executor(object):
    MAX_INLINE = 5

    def __init__(self, world, feas_timeout=400):
        self.world = world
        self.vcs = []
        self.feas_timeout = feas_timeout
        self.nfeas = 0
        self.axioms_used = []
        self.uf_cache = {}
        self.notes = []
        self.inlined = set()
        self.call_stack = []
        self.init_axioms = {}

    # ------------------------------------------------------------------ uninterpreted functions
    def uf(self, name, *sorts):
        k = (name,) + tuple(str(s) for s in sorts)
        if k not in self.uf_cache:
            self.uf_cache[k] = z3.Function(name, *sorts)
        return self.uf_cache[k]

    def global_axioms(self):
        out = []
        for a in self.world.axioms:
            out.extend(a(self))
        for k in sorted(self.init_axioms):
            out.extend(self.init_axioms[k])
        return out

    # ------------------------------------------------------------------ feasibility
    def feasible(self, st):
        if not st.pc:
            return True
        last = z3.simplify(st.pc[-1])
        if z3.is_false(last):
            return False
        self.nfeas += 1
        # 1. the quantifier-free part alone (a subset that is unsatisfiable makes the whole path infeasible; without
        #    quantifiers the answer comes at once)
        qf = [c for c in st.pc if not _has_quantifier(c)]
        if len(qf) != len(st.pc):
            s = z3.Solver()
            s.set('timeout', self.feas_timeout)
            for c in qf:
                s.add(c)
            if s.check() == z3.unsat:
                return False
        s = z3.Solver()
        s.set('timeout', self.feas_timeout)
        for a in self.global_axioms():
            s.add(a)
        for c in st.pc:
            s.add(c)
        return s.check() != z3.unsat

    def branch(self, st, cond):
        """cond: z3 Bool or python bool. yields (state, bool)"""
        if isinstance(cond, bool):
            yield st, cond
            return
        c = z3.simplify(cond)
        if z3.is_true(c):
            yield st, True
            return
        if z3.is_false(c):
            yield st, False
            return
        s1 = st.assume(c)
        if self.feasible(s1):
            yield s1, True
        s2 = st.assume(z3.Not(c))
        if self.feasible(s2):
            yield s2, False

    # ------------------------------------------------------------------ heap
    def H(self, st, key, sort=None):
        if key not in st.heap:
            if sort is None:
                sort = self.heap_sort(key)
            st.heap[key] = z3.Const('H0.' + key, sort)
            if key not in self.init_axioms:
                self.init_axioms[key] = self.closed_axioms(key, st.heap[key], z3.Const('H0.next', IntS))
        return st.heap[key]

    def closed_axioms(self, key, arr, nxt):
        """heap closedness: every reference stored in `arr` is below the allocation counter `nxt`
        (global heap invariant; stated for the initial heap and for every havocked heap)"""
        a = z3.Const('cl_a', IntS)
        i = z3.Const('cl_i', IntS)
        k = z3.Const('cl_k', StrS)
        out = []
        if key.startswith('f.'):
            rng = arr.sort().range()
            if key[2:] in self.world.schema:
                ty = self.world.schema[key[2:]]
            else:
                ty = self.world.schema.get(key[2:].split('.')[-1])
            # (only allocated addresses are constrained: what an array holds at an address nobody has allocated yet is
            #  arbitrary - a lazily introduced initial array must not forbid a later fresh object from pointing at
            #  another later fresh object)
            live = z3.And(a > 0, a < nxt)
            if ty is not None and code_of(ty) == 'R':
                out.append(z3.ForAll([a], z3.Implies(live, z3.And(arr[a] >= 0, arr[a] < nxt))))
            elif rng == Val:
                out.append(z3.ForAll([a], z3.Implies(z3.And(live, Val.is_VRef(arr[a])), Val.addr(arr[a]) < nxt)))
        elif key == 'La.R':
            out.append(z3.ForAll([a, i], z3.Implies(z3.And(a > 0, a < nxt), z3.And(arr[a][i] >= 0, arr[a][i] < nxt))))
        elif key == 'La.V':
            out.append(z3.ForAll([a, i], z3.Implies(z3.And(a > 0, a < nxt, Val.is_VRef(arr[a][i])), Val.addr(arr[a][i]) < nxt)))
        elif key == 'Dv.R':
            out.append(z3.ForAll([a, k], z3.Implies(z3.And(a > 0, a < nxt), z3.And(arr[a][k] >= 0, arr[a][k] < nxt))))
        elif key == 'Dv.V':
            out.append(z3.ForAll([a, k], z3.Implies(z3.And(a > 0, a < nxt, Val.is_VRef(arr[a][k])), Val.addr(arr[a][k]) < nxt)))
        elif key.startswith('g.'):
            ty = self.world.globals_schema[key[2:]]
            if code_of(ty) == 'R':
                out.append(z3.And(arr >= 0, arr < nxt))
        return out

    def heap_sort(self, key):
        if key.startswith('La.'):
            return z3.ArraySort(IntS, z3.ArraySort(IntS, SORTS[key[3:]]))
        if key == 'Ll':
            return z3.ArraySort(IntS, IntS)
        if key == 'Dd':
            return z3.ArraySort(IntS, z3.ArraySort(StrS, BoolS))
        if key.startswith('Dv.'):
            return z3.ArraySort(IntS, z3.ArraySort(StrS, SORTS[key[3:]]))
        if key == 'next':
            return IntS
        if key == 'cls':
            return z3.ArraySort(IntS, IntS)
        if key.startswith('f.'):
            parts = key[2:].split('.')
            if len(parts) == 2:
                t = self.world.schema['%s.%s' % (parts[0], parts[1])]
            else:
                t = self.world.schema.get(parts[0])
            if t is None:
                raise OutOfReach('no schema type for field %s' % key)
            return z3.ArraySort(IntS, SORTS[code_of(t)])
        if key.startswith('g.'):
            t = self.world.globals_schema[key[2:]]
            return SORTS[code_of(t)]
        raise KeyError(key)

    def HS(self, st, key, val):
        s = st.copy()
        s.heap[key] = val
        return s

    def next_addr(self, st):
        return self.H(st, 'next')

    def alloc(self, st, clsname):
        """fresh object address"""
        a = self.H(st, 'next')
        st = self.HS(st, 'next', a + 1)
        cid = self.world.cid(clsname)
        st = self.HS(st, 'cls', z3.Store(self.H(st, 'cls'), a, z3.IntVal(cid)))
        # name the address to keep formulas readable
        c = fresh('new_' + clsname, IntS)
        st = st.assume(c == a)
        return st, c

    # -- typing facts about a value read from the heap / a parameter (lazy instantiation of the
    #    global heap invariants: closedness under `next`, declared class, non-negative lengths)
    def type_facts(self, st, term, ty, allow_fresh_bound=True):
        facts = []
        k = ty.kind
        if k == 'opt':
            inner = ty.args[0]
            if inner.is_ref:
                sub = self.type_facts(st, term, inner)
                if sub:
                    facts.append(z3.Or(term == 0, z3.And(*sub)))
                facts.append(term >= 0)
            else:
                c = code_of(inner)
                if c == 'S':
                    facts.append(z3.Or(term == VNONE, Val.is_VStr(term)))
                elif c == 'I':
                    facts.append(z3.Or(term == VNONE, Val.is_VInt(term)))
                elif c == 'B':
                    facts.append(z3.Or(term == VNONE, Val.is_VBool(term)))
            return facts
        if k in ('list', 'tuple', 'dict', 'set', 'obj'):
            facts.append(term > 0)
            facts.append(term < self.H(st, 'next'))
            cls = self.H(st, 'cls')
            if k == 'obj':
                if ty.args[0] in self.world.classes:
                    ids = self.world.subclass_ids(ty.args[0])
                    facts.append(z3.Or(*[cls[term] == i for i in ids]))
                elif ty.args[0] in self.world.class_ids:
                    facts.append(cls[term] == self.world.cid(ty.args[0]))
                inv = getattr(self.world, 'class_invariants', {}).get(ty.args[0])
                if inv is not None:
                    facts.extend(inv(self, st, term))
            else:
                facts.append(cls[term] == self.world.cid(k))
            if k in ('list', 'tuple'):
                ll = self.H(st, 'Ll')
                facts.append(ll[term] >= 0)
                if k == 'tuple' and not (len(ty.args) == 2 and ty.args[1] is Ellipsis):
                    facts.append(ll[term] == len(ty.args))
        return facts

    def from_heap(self, st, term, ty):
        """wrap a term read from the heap with its declared type, adding the typing facts"""
        facts = self.type_facts(st, term, ty)
        if facts:
            st = st.copy()
            st.pc.extend(facts)
        return st, SV(term, ty)

    # ------------------------------------------------------------------ conversions
    def term(self, sv, code=None):
        """z3 term of sv in sort `code` (default: its own)"""
        own = None
        if sv.is_py:
            v = sv.py
            if isinstance(v, bool):
                t, own = z3.BoolVal(v), 'B'
            elif isinstance(v, int):
                t, own = z3.IntVal(v), 'I'
            elif isinstance(v, str):
                t, own = z3.StringVal(v), 'S'
            elif v is None:
                if code in (None, 'R', 'I'):
                    return z3.IntVal(0)
                if code == 'V':
                    return VNONE
                raise OutOfReach('None used as sort %s' % code)
            elif isinstance(v, type) and v.__name__ in self.world.class_ids:
                t, own = z3.IntVal(-self.world.cid(v.__name__)), 'R'   # class objects: negative pseudo-addresses
            elif type(v).__name__ == 'function':
                # module-level function objects stored in data (factory tables): pseudo-addresses below -1000
                fids = self.world.__dict__.setdefault('fun_ids', {})
                key = '%s:%s' % (getattr(v, '__module__', '?'), getattr(v, '__qualname__', repr(v)))
                if key not in fids:
                    fids[key] = len(fids) + 1
                t, own = z3.IntVal(-(1000 + fids[key])), 'R'
            else:
                raise OutOfReach('python object %r has no term' % (v,))
        else:
            t, own = sv.term, code_of(sv.ty)
        if code is None or code == own or (code in 'IR' and own in 'IR'):
            return t
        if code == 'V':
            if own == 'I':
                return Val.VInt(t)
            if own == 'R':
                return Val.VRef(t)
            if own == 'B':
                return Val.VBool(t)
            if own == 'S':
                return Val.VStr(t)
        if own == 'V':
            if code == 'I':
                return Val.ival(t)
            if code == 'R':
                return Val.addr(t)
            if code == 'B':
                return Val.bval(t)
            if code == 'S':
                return Val.sval(t)
        raise OutOfReach('cannot convert %r to sort %s' % (sv, code))

    def unbox(self, st, term, ty):
        """term of sort Val read from a Val container, expected type ty"""
        c = code_of(ty)
        if c == 'V':
            return self.from_heap(st, term, ty)
        conv = {'I': Val.ival, 'R': Val.addr, 'B': Val.bval, 'S': Val.sval}[c]
        return self.from_heap(st, conv(term), ty)

    def box_tuple(self, st, sv):
        """materialise an engine-level tuple in the heap (immutable object)"""
        items = sv.py
        elemtys = [self.static_type(x) for x in items]
        st, a = self.alloc(st, 'tuple')
        st = self.HS(st, 'Ll', z3.Store(self.H(st, 'Ll'), a, z3.IntVal(len(items))))
        arr = z3.K(IntS, VNONE)
        for i, x in enumerate(items):
            st, t = self.store_term(st, x, 'V')
            arr = z3.Store(arr, i, t)
        st = self.HS(st, 'La.V', z3.Store(self.H(st, 'La.V'), a, arr))
        return st, SV(a, TupleT(*elemtys))

    def store_term(self, st, sv, code):
        """term for storing sv into a container of sort `code` (boxes engine-level tuples)"""
        if sv.is_py and isinstance(sv.py, tuple):
            st, sv = self.box_tuple(st, sv)
        if isinstance(sv, SV) and sv.is_py and isinstance(sv.py, ExcVal):
            st, sv = self.box_exc(st, sv.py)
        return st, self.term(sv, code)

    def static_type(self, sv):
        if sv.is_py and isinstance(sv.py, tuple):
            return TupleT(*[self.static_type(x) for x in sv.py])
        return sv.ty

    def box_exc(self, st, exc):
        if exc.addr is not None:
            return st, SV(exc.addr, ObjT(exc.cls.__name__))
        name = exc.cls.__name__
        if name not in self.world.class_ids:
            self.world.class_ids[name] = len(self.world.class_ids) + 1
            self.world.classes.setdefault(name, exc.cls)
        st, a = self.alloc(st, name)
        arr = z3.K(IntS, VNONE)
        for i, x in enumerate(exc.args):
            st, t = self.store_term(st, x, 'V')
            arr = z3.Store(arr, i, t)
        st = self.HS(st, 'La.V', z3.Store(self.H(st, 'La.V'), a, arr))
        st = self.HS(st, 'Ll', z3.Store(self.H(st, 'Ll'), a, z3.IntVal(len(exc.args))))
        exc.addr = a
        return st, SV(a, ObjT(name))
