"""Extraction of the real function text from /repo's working tree.

Every run re-reads the module files under REPO, parses them with `ast`, and indexes every
function definition by qualified name  `<module>:<Class>.<method>` / `<module>:<func>.<locals>.<inner>`.
What extraction drops (and nothing else): docstrings (a leading string-constant expression statement).
"""
import ast
import hashlib
import os

REPO = os.environ.get('HL7APY_REPO', '/repo')

_cache = {}


class FuncSrc(object):
    def __init__(self, module, qual, node, path, src_lines, cls_name, parent_func):
        self.module = module
        self.qual = qual
        self.node = node
        self.path = path
        self.cls_name = cls_name          # enclosing class name or None
        self.parent_func = parent_func    # FuncSrc of the enclosing function (closures) or None
        seg = src_lines[node.lineno - 1:node.end_lineno]
        self.text = '\n'.join(seg)
        self.sha = hashlib.sha256(self.text.encode()).hexdigest()
        self.span = (node.lineno, node.end_lineno)

    @property
    def key(self):
        return '%s:%s' % (self.module, self.qual)

    def body(self):
        b = self.node.body
        if b and isinstance(b[0], ast.Expr) and isinstance(b[0].value, ast.Constant) and isinstance(b[0].value.value, str):
            b = b[1:]
        return b

    def is_staticmethod(self):
        return any(isinstance(d, ast.Name) and d.id == 'staticmethod' for d in self.node.decorator_list)

    def is_property(self):
        return any(isinstance(d, ast.Name) and d.id == 'property' for d in self.node.decorator_list)


def module_path(module):
    return os.path.join(REPO, *module.split('.')) + '.py' if not os.path.isdir(os.path.join(REPO, *module.split('.'))) \
        else os.path.join(REPO, *module.split('.'), '__init__.py')


class ModuleSrc(object):
    def __init__(self, module):
        self.module = module
        self.path = module_path(module)
        with open(self.path) as f:
            self.text = f.read()
        self.lines = self.text.split('\n')
        self.tree = ast.parse(self.text)
        self.funcs = {}
        self.classes = {}
        self._index(self.tree.body, [], None, None)

    def _index(self, body, prefix, cls_name, parent_func):
        for n in body:
            if isinstance(n, (ast.FunctionDef,)):
                qual = '.'.join(prefix + [n.name])
                fs = FuncSrc(self.module, qual, n, self.path, self.lines, cls_name, parent_func)
                self.funcs[qual] = fs
                self._index(n.body, prefix + [n.name, '<locals>'], None, fs)
            elif isinstance(n, ast.ClassDef):
                self.classes['.'.join(prefix + [n.name])] = n
                self._index(n.body, prefix + [n.name], n.name, parent_func)
            elif isinstance(n, (ast.If, ast.Try, ast.With, ast.For, ast.While)):
                for fld in ('body', 'orelse', 'finalbody'):
                    self._index(getattr(n, fld, []) or [], prefix, cls_name, parent_func)
                for h in getattr(n, 'handlers', []) or []:
                    self._index(h.body, prefix, cls_name, parent_func)


def load_module(module):
    if module not in _cache:
        _cache[module] = ModuleSrc(module)
    return _cache[module]


def get_func(key):
    module, qual = key.split(':')
    if '[' in qual:          # attribute-specialised contract key, e.g. Element.__setattr__[parent]
        qual = qual[:qual.index('[')]
    m = load_module(module)
    if qual not in m.funcs:
        raise KeyError('function %s not found in %s' % (qual, m.path))
    return m.funcs[qual]


def all_funcs(module):
    return load_module(module).funcs


def loop_headers(fs):
    """Ordinal -> unparsed header of every for/while loop in the function (excluding nested defs)."""
    out = []

    def walk(stmts):
        for s in stmts:
            if isinstance(s, ast.FunctionDef) or isinstance(s, ast.ClassDef):
                continue
            if isinstance(s, ast.For):
                out.append('for %s in %s' % (ast.unparse(s.target), ast.unparse(s.iter)))
            elif isinstance(s, ast.While):
                out.append('while %s' % ast.unparse(s.test))
            for fld in ('body', 'orelse', 'finalbody'):
                walk(getattr(s, fld, []) or [])
            for h in getattr(s, 'handlers', []) or []:
                walk(h.body)
    walk(fs.body())
    return out
