"""Contracts on CPython builtins used by the verified code (the axiom library, DESIGN 2.4).
Every model here is an ASSUMPTION about CPython, validated by the differential self-test
(selftest/diff_builtins.py), never proved."""
import ast
import re as _re
import z3

from .tys import *     # noqa
from .engine import (SV, mk, NOPY, NONE_SV, PYOBJ, ExcVal, Raised, OutOfReach, Val, VNONE, SORTS, IntS, BoolS, StrS,
                     code_of, fresh, fresh_name)
from .expr import (BoundMethod, BoundBuiltin, SuperProxy, LambdaV, GenV, PyDict, CondSet, DictKeys, DictItems,
                   DictValues, CondList, EnumV, RangeV, ReversedV, SymSetComp)

WS = ' \t\n\r\x0b\x0c\x1c\x1d\x1e\x1f\x85\xa0'    # str.isspace characters below U+0100 (validated by selftest)


class BuiltinMixin(object):

    # ------------------------------------------------------------------ string spec functions (UFs + axioms)
    def f_upper(self):
        return self.uf('upper', StrS, StrS)

    def f_strip(self):
        return self.uf('strip', StrS, StrS)

    def f_lstrip(self):
        return self.uf('lstrip', StrS, StrS)

    def f_stripcr(self):
        return self.uf('strip_cr', StrS, StrS)

    def f_split_len(self):
        return self.uf('split_len', StrS, StrS, IntS)

    def f_split_item(self):
        return self.uf('split_item', StrS, StrS, IntS, StrS)

    def f_join(self):
        return self.uf('join', StrS, z3.ArraySort(IntS, StrS), IntS, StrS)

    def str_upper(self, sv):
        if sv.is_py:
            return mk(sv.py.upper())
        return SV(self.f_upper()(self.term(sv, 'S')), STR)

    # ------------------------------------------------------------------ builtin functions
    def call_builtin(self, st, f, args, kwargs, fr):
        name = getattr(f, '__name__', repr(f))
        m = getattr(self, 'bi_' + name, None)
        if m is None:
            mod = getattr(f, '__module__', None)
            hook = self.world.specfuncs.get('ext:%s.%s' % (mod, name)) or self.world.specfuncs.get('ext:' + name)
            if hook is not None:
                return hook(self, st, args, kwargs, fr)
            raise OutOfReach('builtin %s' % name)
        return m(st, args, kwargs, fr)

    def _minmax(self, st, args, kwargs, is_max):
        """max(a, b, ...) / min(a, b, ...) over two or more integers (the iterable form and key= are not modelled)"""
        if kwargs or len(args) < 2:
            raise OutOfReach('max/min form')
        ts = []
        for a in args:
            if a.is_py and isinstance(a.py, bool) or (not a.is_py and a.ty.kind != 'int') or (a.is_py and not isinstance(a.py, int)):
                raise OutOfReach('max/min of non-integers')
            ts.append(self.term(a, 'I'))
        r = ts[0]
        for t in ts[1:]:
            r = z3.If(t > r, t, r) if is_max else z3.If(t < r, t, r)
        yield st, SV(r, INT)

    def bi_max(self, st, args, kwargs, fr):
        return self._minmax(st, args, kwargs, True)

    def bi_min(self, st, args, kwargs, fr):
        return self._minmax(st, args, kwargs, False)

    def bi_len(self, st, args, kwargs, fr):
        (x,) = args
        if x.is_py:
            v = x.py
            if isinstance(v, (str, tuple, list, dict, frozenset, set)):
                yield st, mk(len(v))
                return
            if isinstance(v, PyDict):
                yield st, mk(len(v.items))
                return
            if isinstance(v, CondList):
                yield st, SV(z3.Sum(*[z3.If(c, 1, 0) for c, _ in v.items]) if v.items else z3.IntVal(0), INT)
                return
            if v is None:
                yield self.raise_(st, TypeError, 'len of None')
                return
            if isinstance(v, SetOf):
                yield v.card(self, st)
                return
            raise OutOfReach('len of %r' % (v,))
        k = x.ty.kind
        if k in ('str', 'bytes'):
            yield st, SV(z3.Length(x.term), INT)
        elif k in ('list', 'tuple'):
            yield st, SV(self.H(st, 'Ll')[x.term], INT)
        elif k == 'obj' and x.ty.args[0] in getattr(self.world, 'tuple_records', {}):
            alen = self.record_len(st, x)
            yield st, (mk(len(self.world.tuple_records[x.ty.args[0]])) if alen is None else SV(alen, INT))
        elif k == 'obj':
            for r in self.call_method(st, x, '__len__', [], {}, fr):
                yield r
        elif k == 'opt':
            for st1, b in self.branch(st, self.is_none(x)):
                if b:
                    yield self.raise_(st1, TypeError, 'len of None')
                else:
                    inner = x.ty.args[0]
                    if inner.is_ref:
                        u = SV(x.term, inner)
                    else:
                        st1, u = self.unbox(st1, x.term, inner)
                    for r in self.bi_len(st1, [u], {}, fr):
                        yield r
        elif k == 'dict':
            yield st, SV(self.uf('dsize', z3.ArraySort(StrS, BoolS), IntS)(self.H(st, 'Dd')[x.term]), INT)
        else:
            raise OutOfReach('len of %r' % (x,))

    def bi_isinstance(self, st, args, kwargs, fr):
        x, c = args
        if not c.is_py:
            raise OutOfReach('isinstance with symbolic class')
        classes = c.py if isinstance(c.py, tuple) else (c,)
        classes = [k.py if isinstance(k, SV) else k for k in classes]
        yield st, self.bool_sv(self.isinstance_(st, x, classes))

    def isinstance_(self, st, x, classes):
        import collections.abc as cabc
        if x.is_py:
            v = x.py
            if isinstance(v, (str, int, bool, type(None), bytes)):
                return isinstance(v, tuple(classes))
            if isinstance(v, tuple):
                return any(issubclass(tuple, k) for k in classes)
            if isinstance(v, PyDict):
                return any(issubclass(dict, k) for k in classes)
            if isinstance(v, ExcVal):
                return any(issubclass(v.cls, k) for k in classes)
            raise OutOfReach('isinstance of python object %r' % (v,))
        k = x.ty.kind

        def of_kind(kind, ty=None):
            pycls = {'str': str, 'int': int, 'bool': bool, 'list': list, 'tuple': tuple, 'dict': dict,
                     'bytes': bytes, 'set': set}.get(kind)
            if pycls is not None:
                return any(issubclass(pycls, c) for c in classes)
            return None
        if k in ('str', 'int', 'bool', 'list', 'tuple', 'dict', 'bytes', 'set'):
            return of_kind(k)
        if k == 'none':
            return any(issubclass(type(None), c) for c in classes)
        if k == 'obj':
            return self.obj_isinstance(st, x.term, x.ty.args[0], classes)
        if k == 'opt':
            inner = x.ty.args[0]
            if inner.kind == 'obj':
                r = self.obj_isinstance(st, x.term, inner.args[0], classes)
            else:
                r = of_kind(inner.kind)
            if r is None:
                raise OutOfReach('isinstance on %r' % (x,))
            nn = any(issubclass(type(None), c) for c in classes)
            isn = self.is_none(x)
            return self.or_([self.and_([isn, nn]), self.and_([self.not_(isn), r])])
        if k == 'any':
            t = x.term
            cs = []
            for kind, tester in (('str', Val.is_VStr), ('int', Val.is_VInt), ('bool', Val.is_VBool)):
                if of_kind(kind):
                    cs.append(tester(t))
            if any(issubclass(type(None), c) for c in classes):
                cs.append(t == VNONE)
            # references: by class id
            ids = []
            for n, pc in list(self.world.classes.items()):
                if any(issubclass(pc, c) for c in classes):
                    ids.append(self.world.cid(n))
            for n, pc in (('list', list), ('tuple', tuple), ('dict', dict), ('set', set)):
                if any(issubclass(pc, c) for c in classes):
                    ids.append(self.world.cid(n))
            if ids:
                a = Val.addr(t)
                cs.append(z3.And(Val.is_VRef(t), a > 0, z3.Or(*[self.H(st, 'cls')[a] == i for i in ids])))
            import types as _t
            if any(c is _t.FunctionType for c in classes):
                cs.append(z3.And(Val.is_VRef(t), Val.addr(t) <= -1000))      # function objects (see Executor.term)
            if any(c is type for c in classes):
                cs.append(z3.And(Val.is_VRef(t), Val.addr(t) < 0, Val.addr(t) > -1000))
            return self.or_(cs)
        raise OutOfReach('isinstance on %r' % (x,))

    def obj_isinstance(self, st, addr, cname, classes):
        if cname in getattr(self.world, 'tuple_records', {}):
            # a structure-table record is a tuple (child entries inside groups are lists): decided only when both agree
            as_t = any(issubclass(tuple, c) for c in classes)
            as_l = any(issubclass(list, c) for c in classes)
            if as_t != as_l:
                raise OutOfReach('isinstance distinguishing tuple from list on a %s record' % cname)
            return as_t
        if cname not in self.world.classes:
            return False
        cands = self.world.subclasses(cname)
        yes = [n for n in cands if any(issubclass(self.world.classes[n], c) for c in classes)]
        if len(yes) == len(cands):
            return True
        if not yes:
            return False
        cls = self.H(st, 'cls')
        return z3.Or(*[cls[addr] == self.world.cid(n) for n in yes])

    def bi_hasattr(self, st, args, kwargs, fr):
        x, n = args
        if not (n.is_py and isinstance(n.py, str)):
            raise OutOfReach('hasattr with symbolic name')
        if x.is_py:
            if isinstance(x.py, (PyDict,)):
                yield st, mk(hasattr({}, n.py))
                return
            raise OutOfReach('hasattr on python object')
        if x.ty.kind == 'obj':
            cname = x.ty.args[0]
            if self.world.field_type(cname, n.py) is not None:
                # ASSUMPTION: objects handed to verified code are fully constructed
                yield st, mk(True)
                return
            c, raw = self.class_lookup(cname, n.py)
            if raw is not None and not isinstance(raw, property):
                yield st, mk(True)
                return
            if isinstance(raw, property):
                # hasattr evaluates the property; true unless it raises AttributeError
                any_ok = False
                for st1, r in self.call_function(st, raw.fget, [x], {}, fr, defcls=c):
                    if isinstance(r, Raised):
                        if issubclass(r.exc.cls, AttributeError):
                            yield st1, mk(False)
                        else:
                            yield st1, r
                    else:
                        yield st1, mk(True)
                return
            raise OutOfReach('hasattr(%s, %s)' % (cname, n.py))
        if x.ty.kind in ('dict', 'list', 'str'):
            yield st, mk(hasattr({'dict': {}, 'list': [], 'str': ''}[x.ty.kind], n.py))
            return
        if x.ty.kind == 'any' and 'hasattr_any' in self.world.specfuncs:
            yield self.world.specfuncs['hasattr_any'](self, st, x, n.py)
            return
        raise OutOfReach('hasattr on %r' % (x,))

    def bi_getattr(self, st, args, kwargs, fr):
        if len(args) not in (2, 3) or not (args[1].is_py and isinstance(args[1].py, str)):
            raise OutOfReach('getattr with symbolic name')
        if len(args) == 2:
            return self.getattr_(st, args[0], args[1].py, fr)
        return self._getattr_default(st, args[0], args[1].py, args[2], fr)

    def _getattr_default(self, st, obj, name, default, fr):
        for st1, r in self.getattr_(st, obj, name, fr):
            if isinstance(r, Raised) and issubclass(r.exc.cls, AttributeError):
                yield st1, default
            else:
                yield st1, r

    def bi_setattr(self, st, args, kwargs, fr):
        if not (args[1].is_py and isinstance(args[1].py, str)):
            raise OutOfReach('setattr with symbolic name')
        for st1, r in self.setattr_(st, args[0], args[1].py, args[2], fr):
            yield st1, (r if isinstance(r, Raised) else NONE_SV)

    def bi_delattr(self, st, args, kwargs, fr):
        if not (args[1].is_py and isinstance(args[1].py, str)):
            raise OutOfReach('delattr with symbolic name')
        for r in self.delattr_(st, args[0], args[1].py, fr):
            yield r

    def bi_int(self, st, args, kwargs, fr):
        (x,) = args
        if x.is_py:
            try:
                yield st, mk(int(x.py))
            except (ValueError, TypeError) as e:
                yield self.raise_(st, type(e), 'int')
            return
        if x.ty.kind == 'int':
            yield st, x
            return
        if x.ty.kind == 'str':
            # int(s): CPython accepts optional sign, digits with single underscores, surrounding whitespace,
            # any Unicode decimal digit.  Modelled by two uninterpreted functions: int_ok(s), int_val(s)
            ok = self.uf('int_ok', StrS, BoolS)(x.term)
            val = self.uf('int_val', StrS, IntS)(x.term)
            for st1, b in self.branch(st, ok):
                if b:
                    yield st1, SV(val, INT)
                else:
                    yield self.raise_(st1, ValueError, 'invalid literal for int()')
            return
        if x.ty.kind == 'opt' or x.ty.kind == 'any':
            t = self.term(x, 'V')
            for st1, b in self.branch(st, Val.is_VStr(t)):
                if b:
                    for r in self.bi_int(st1, [SV(Val.sval(t), STR)], {}, fr):
                        yield r
                else:
                    for st2, b2 in self.branch(st1, Val.is_VInt(t)):
                        if b2:
                            yield st2, SV(Val.ival(t), INT)
                        else:
                            yield self.raise_(st2, TypeError, 'int() argument')
            return
        raise OutOfReach('int(%r)' % (x,))

    def bi_str(self, st, args, kwargs, fr):
        (x,) = args
        if x.is_py and isinstance(x.py, (str, int)) and not isinstance(x.py, bool):
            yield st, mk(str(x.py))
            return
        if x.is_py and x.py is None:
            yield st, mk('None')
            return
        if not x.is_py and x.ty.kind == 'str':
            yield st, x
            return
        if not x.is_py:
            yield st, SV(self.uf('str_of', Val, StrS)(self.term(x, 'V')), STR)
            return
        raise OutOfReach('str(%r)' % (x,))

    def bi_repr(self, st, args, kwargs, fr):
        (x,) = args
        st, t = self.store_term(st, x, 'V')
        yield st, SV(self.uf('repr_of', Val, StrS)(t), STR)

    def bi_list(self, st, args, kwargs, fr):
        if not args:
            yield self.new_list(st, [], ANY)
            return
        (x,) = args
        if x.is_py:
            v = x.py
            if isinstance(v, tuple):
                yield self.new_list(st, list(v))
                return
            if isinstance(v, str):
                yield self.new_list(st, [mk(c) for c in v], STR)
                return
            if isinstance(v, TakeWhileRev):
                yield v.materialise(self, st)
                return
            if isinstance(v, DictValues) and v.d.is_py and isinstance(v.d.py, dict):
                yield st, SV(None, Ty('pytuple'), tuple(mk(x) for x in v.d.py.values()))
                return
            raise OutOfReach('list(%r)' % (v,))
        if x.ty.kind in ('list', 'tuple'):
            n = self.H(st, 'Ll')[x.term]
            code = self.seq_code(x.ty)
            elemty = self.seq_elem_type(x.ty)
            st, r = self.alloc(st, 'list')
            st = self.HS(st, 'La.' + code, z3.Store(self.H(st, 'La.' + code), r, self.H(st, 'La.' + code)[x.term]))
            st = self.HS(st, 'Ll', z3.Store(self.H(st, 'Ll'), r, n))
            yield st, SV(r, ListT(elemty))
            return
        raise OutOfReach('list(%r)' % (x,))

    def bi_tuple(self, st, args, kwargs, fr):
        (x,) = args
        if x.is_py and isinstance(x.py, tuple):
            yield st, x
            return
        if not x.is_py and x.ty.kind == 'list' and st.ghost.get('lshadow:%s' % x.term) is not None:
            yield st, SV(None, Ty('pytuple'), tuple(st.ghost['lshadow:%s' % x.term]))
            return
        raise OutOfReach('tuple(%r)' % (x,))

    def bi_set(self, st, args, kwargs, fr):
        if not args:
            yield st, mk(frozenset())
            return
        (x,) = args
        if x.is_py:
            v = x.py
            if isinstance(v, DictKeys):
                yield st, mk(SetOf('dictkeys', v.d))
                return
            if isinstance(v, CondList):
                yield st, mk(SetOf('condlist', v))
                return
            if isinstance(v, DictValues) and not v.d.is_py and v.d.ty.kind == 'dict':
                yield st, mk(SetOf('dictvalues', v.d))
                return
            if isinstance(v, str):
                yield st, mk(frozenset(v))
                return
            if isinstance(v, tuple) and all(e.is_py for e in v):
                yield st, mk(frozenset(e.py for e in v))
                return
        elif x.ty.kind in ('str', 'bytes'):
            yield st, mk(SetOf('chars', x))
            return
        raise OutOfReach('set(%r)' % (x,))

    def bi_enumerate(self, st, args, kwargs, fr):
        yield st, mk(EnumV(args[0]))

    def bi_range(self, st, args, kwargs, fr):
        if len(args) == 1:
            yield st, mk(RangeV(mk(0), args[0]))
        elif len(args) == 2:
            yield st, mk(RangeV(args[0], args[1]))
        else:
            raise OutOfReach('range with step')

    def bi_reversed(self, st, args, kwargs, fr):
        yield st, mk(ReversedV(args[0]))

    def bi_takewhile(self, st, args, kwargs, fr):
        pred, seq = args
        if seq.is_py and isinstance(seq.py, ReversedV) and pred.is_py and isinstance(pred.py, LambdaV):
            yield st, mk(TakeWhileRev(pred.py, seq.py.seq, fr))
            return
        raise OutOfReach('takewhile shape')

    def bi_iter(self, st, args, kwargs, fr):
        yield st, args[0]

    def bi_sorted(self, st, args, kwargs, fr):
        raise OutOfReach('sorted')

    def bi_print(self, st, args, kwargs, fr):
        yield st, NONE_SV

    # ------------------------------------------------------------------ methods of builtin types
    def call_builtin_method(self, st, recv, name, args, kwargs, fr):
        if recv.is_py and isinstance(recv.py, tuple) and recv.py and recv.py[0].is_py and recv.py[0].py == 'object':
            return self.object_method(st, recv.py[1], name, args, kwargs, fr)
        if recv.is_py:
            v = recv.py
            if isinstance(v, str):
                if all(a.is_py and isinstance(a.py, (str, int, type(None))) for a in args) and not kwargs and name != 'join':
                    try:
                        r = getattr(v, name)(*[a.py for a in args])
                    except (ValueError, TypeError, IndexError) as e:
                        return [self.raise_(st, type(e), name)]
                    if isinstance(r, list):
                        return [self.new_list(st, [mk(x) for x in r], STR)]
                    return [(st, mk(r))]
                recv = SV(z3.StringVal(v), STR)
                return self.str_method(st, recv, name, args, kwargs, fr, const=v)
            if isinstance(v, PyDict):
                return self.pydict_method(st, recv, name, args, kwargs, fr)
            if isinstance(v, dict):
                return self.constdict_method(st, recv, name, args, kwargs, fr)
            if isinstance(v, frozenset) or isinstance(v, SetOf) or isinstance(v, CondSet):
                raise OutOfReach('set method %s' % name)
            if isinstance(v, tuple):
                if name == 'index':
                    raise OutOfReach('tuple.index')
            raise OutOfReach('method %s of %r' % (name, v))
        k = recv.ty.kind
        if k in ('str', 'bytes'):
            return self.str_method(st, recv, name, args, kwargs, fr)
        if k == 'list':
            return self.list_method(st, recv, name, args, kwargs, fr)
        if k == 'tuple':
            return self.list_method(st, recv, name, args, kwargs, fr, readonly=True)
        if k == 'dict':
            return self.dict_method(st, recv, name, args, kwargs, fr)
        raise OutOfReach('method %s of %r' % (name, recv))

    def object_method(self, st, selfv, name, args, kwargs, fr):
        if name == '__setattr__':
            a, v = args
            for st1, r in self.object_setattr(st, selfv, a.py, v, fr):
                yield st1, (r if isinstance(r, Raised) else NONE_SV)
        elif name == '__delattr__':
            raise OutOfReach('object.__delattr__')
        elif name == '__init__':
            yield st, NONE_SV
        elif name == '__getattribute__' or name == '__getattr__':
            raise OutOfReach('object.__getattr__')
        else:
            raise OutOfReach('object.%s' % name)

    # -- str ---------------------------------------------------------------------------------------
    def str_method(self, st, recv, name, args, kwargs, fr, const=None):
        t = recv.term
        ty = recv.ty
        if name == 'upper':
            yield st, SV(self.f_upper()(t), ty)
        elif name == 'strip' and not args:
            yield st, SV(self.f_strip()(t), ty)
        elif name == 'lstrip' and not args:
            yield st, SV(self.f_lstrip()(t), ty)
        elif name == 'strip' and len(args) == 1 and args[0].is_py and args[0].py == '\r':
            yield st, SV(self.f_stripcr()(t), ty)
        elif name == 'startswith' and len(args) == 1:
            yield st, SV(z3.PrefixOf(self.term(args[0], 'S'), t), BOOL)
        elif name == 'endswith' and len(args) == 1:
            yield st, SV(z3.SuffixOf(self.term(args[0], 'S'), t), BOOL)
        elif name == 'find' and len(args) == 1:
            yield st, SV(z3.IndexOf(t, self.term(args[0], 'S'), 0), INT)
        elif name == 'format':
            if kwargs:
                if const is None:
                    raise OutOfReach('format on symbolic template')
                # keyword-only templates such as '{esc}F{esc}'
                import string
                parts = []
                for lit, field, spec, conv in string.Formatter().parse(const):
                    if lit:
                        parts.append(z3.StringVal(lit))
                    if field is None:
                        continue
                    if spec or conv or field not in kwargs:
                        raise OutOfReach('format template %r' % const)
                    parts.append(self.term(kwargs[field], 'S'))
                yield st, SV(z3.Concat(*parts) if len(parts) > 1 else parts[0], STR)
                return
            if const is None:
                raise OutOfReach('format on symbolic template')
            yield st, self.format_uf(st, ('format', const), args)
        elif name == 'split':
            if len(args) == 1:
                yield self.str_split(st, recv, args[0])
            elif len(args) == 2 and args[1].is_py and args[1].py == 1:
                yield self.str_split1(st, recv, args[0])
            else:
                raise OutOfReach('split form')
        elif name == 'rsplit' and len(args) == 2 and args[1].is_py and args[1].py == 1:
            yield self.str_rsplit1(st, recv, args[0])
        elif name == 'join':
            for r in self.str_join(st, recv, args[0], fr):
                yield r
        elif name == 'replace' and len(args) == 2:
            f = self.uf('replace_all', StrS, StrS, StrS, StrS)
            yield st, SV(f(t, self.term(args[0], 'S'), self.term(args[1], 'S')), ty)
        elif name == 'decode':
            enc = self.term(args[0], 'S') if args else z3.StringVal('utf-8')
            ok = self.uf('decode_ok', StrS, StrS, BoolS)(t, enc)
            for st1, b in self.branch(st, ok):
                if b:
                    yield st1, SV(self.uf('decode', StrS, StrS, StrS)(t, enc), STR)
                else:
                    yield self.raise_(st1, UnicodeDecodeError, 'decode')
        elif name == 'encode':
            enc = self.term(args[0], 'S') if args else z3.StringVal('utf-8')
            yield st, SV(self.uf('encode', StrS, StrS, StrS)(t, enc), BYTES)
        elif name == 'isdigit':
            yield st, SV(self.uf('isdigit', StrS, BoolS)(t), BOOL)
        else:
            raise OutOfReach('str.%s' % name)

    def str_split(self, st, recv, sep):
        """s.split(c), len(c) == 1: fresh list r with len(r) == split_len(s,c) >= 1 and r[i] == split_item(s,c,i).
        The relation to s (join inverse, separator-freeness) is in the axiom library, instantiated on demand."""
        s, c = recv.term, self.term(sep, 'S')
        n = self.f_split_len()(s, c)
        st, r = self.alloc(st, 'list')
        arr = fresh('pieces', z3.ArraySort(IntS, StrS))
        i = fresh('i', IntS)
        st = st.assume(n >= 1)
        st = st.assume(z3.ForAll([i], z3.Implies(z3.And(0 <= i, i < n), arr[i] == self.f_split_item()(s, c, i))))
        st = st.assume(z3.And(*self.split_facts(s, c)))
        st = self.HS(st, 'La.S', z3.Store(self.H(st, 'La.S'), r, arr))
        st = self.HS(st, 'Ll', z3.Store(self.H(st, 'Ll'), r, n))
        st.ghost = dict(st.ghost)
        st.ghost['splits'] = st.ghost.get('splits', ()) + ((s, c, r),)
        return st, SV(r, ListT(recv.ty))

    def split_facts(self, s, c):
        """ground instances (for this s, c with len(c) == 1) of the split/join axioms:
        Lean core List.splitOn lemmas restated for CPython str.split (validated by selftest/diff_builtins)"""
        item = self.f_split_item()
        n = self.f_split_len()(s, c)
        i0 = item(s, c, 0)
        i1 = item(s, c, 1)
        l0 = z3.Length(i0)
        l1 = z3.Length(i1)
        ls = z3.Length(s)
        return [
            n >= 1,
            (n >= 2) == z3.Contains(s, c),
            z3.PrefixOf(i0, s),
            z3.Not(z3.Contains(i0, c)),
            z3.If(n == 1, i0 == s, z3.SubString(s, l0, 1) == c),
            z3.Implies(n >= 2, z3.And(z3.SubString(s, l0 + 1, l1) == i1, z3.Not(z3.Contains(i1, c)),
                                      l0 + 1 + l1 <= ls,
                                      z3.If(n == 2, l0 + 1 + l1 == ls, z3.SubString(s, l0 + 1 + l1, 1) == c))),
        ]

    def str_split1(self, st, recv, sep):
        """s.split(c, 1): [head] or [head, tail]; head == split_item(s,c,0)"""
        s, c = recv.term, self.term(sep, 'S')
        head = self.f_split_item()(s, c, 0)
        n = self.f_split_len()(s, c)
        tail = self.uf('split_tail', StrS, StrS, StrS)(s, c)
        st, r = self.alloc(st, 'list')
        arr = z3.Store(z3.Store(z3.K(IntS, z3.StringVal('')), 0, head), 1, tail)
        st = st.assume(n >= 1)
        st = st.assume(z3.And(*self.split_facts(s, c)))
        st = self.HS(st, 'La.S', z3.Store(self.H(st, 'La.S'), r, arr))
        st = self.HS(st, 'Ll', z3.Store(self.H(st, 'Ll'), r, z3.If(n >= 2, 2, 1)))
        return st, SV(r, ListT(recv.ty))

    def str_rsplit1(self, st, recv, sep):
        s, c = recv.term, self.term(sep, 'S')
        n = self.f_split_len()(s, c)
        head = self.uf('rsplit_head', StrS, StrS, StrS)(s, c)
        last = self.uf('rsplit_last', StrS, StrS, StrS)(s, c)
        st, r = self.alloc(st, 'list')
        st = st.assume(n >= 1)
        arr = z3.If(n >= 2, z3.Store(z3.Store(z3.K(IntS, z3.StringVal('')), 0, head), 1, last),
                    z3.Store(z3.K(IntS, z3.StringVal('')), 0, s))
        st = self.HS(st, 'La.S', z3.Store(self.H(st, 'La.S'), r, arr))
        st = self.HS(st, 'Ll', z3.Store(self.H(st, 'Ll'), r, z3.If(n >= 2, 2, 1)))
        return st, SV(r, ListT(recv.ty))

    def str_join(self, st, recv, seq, fr):
        sep = recv.term
        if seq.is_py and isinstance(seq.py, GenV):
            # sep.join(f(x) for x in xs): evaluate as a list comprehension first
            node = seq.py.node
            st1 = st.copy()
            saved = st1.locals
            st1.locals = dict(seq.py.locals)
            lc = ast.ListComp(elt=node.elt, generators=node.generators)
            for st2, lst in self.comprehension(lc, st1, seq.py.fr, 'list'):
                st3 = st2.copy()
                st3.locals = saved
                if isinstance(lst, Raised):
                    yield st3, lst
                else:
                    for r in self.str_join(st3, recv, lst, fr):
                        yield r
            return
        if seq.is_py and isinstance(seq.py, tuple):
            items = seq.py
            if all(self.num_or_str(x) == 'S' for x in items):
                if not items:
                    yield st, mk('')
                    return
                parts = []
                for j, x in enumerate(items):
                    if j:
                        parts.append(sep)
                    parts.append(self.term(x, 'S'))
                yield st, SV(z3.Concat(*parts) if len(parts) > 1 else parts[0], STR)
                return
            raise OutOfReach('join of non-strings')
        if not seq.is_py and seq.ty.kind in ('list', 'tuple') and code_of(self.seq_elem_type(seq.ty)) == 'S':
            arr = self.H(st, 'La.S')[seq.term]
            n = self.H(st, 'Ll')[seq.term]
            yield st, SV(self.f_join()(sep, arr, n), STR)
            return
        raise OutOfReach('join of %r' % (seq,))

    # -- list --------------------------------------------------------------------------------------
    def list_method(self, st, recv, name, args, kwargs, fr, readonly=False):
        a = recv.term
        elemty = self.seq_elem_type(recv.ty)
        code = self.seq_code(recv.ty)
        La, Ll = 'La.' + code, 'Ll'
        n = self.H(st, Ll)[a]
        arr = self.H(st, La)[a]
        if name in ('append', 'insert', 'remove', 'extend', 'pop', 'sort', 'reverse', 'clear') and readonly:
            yield self.raise_(st, AttributeError, name)
            return
        if name in ('append', 'insert', 'remove', 'extend', 'pop'):
            if 'lshadow:%s' % a in st.ghost:
                st = st.copy()
                del st.ghost['lshadow:%s' % a]
        if name == 'append':
            (x,) = args
            self.check_assignable(x, elemty, 'list element')
            st, t = self.store_term(st, x, code)
            # re-read after a possible allocation by store_term
            st = self.HS(st, La, z3.Store(self.H(st, La), a, z3.Store(self.H(st, La)[a], n, t)))
            st = self.HS(st, Ll, z3.Store(self.H(st, Ll), a, n + 1))
            yield st, NONE_SV
        elif name == 'insert':
            idx, x = args
            self.check_assignable(x, elemty, 'list element')
            i = self.int_of(idx)
            # python clamps the insertion index
            if isinstance(i, int):
                i = z3.IntVal(i)
            j = z3.If(i < 0, z3.If(i + n < 0, 0, i + n), z3.If(i > n, n, i))
            st, t = self.store_term(st, x, code)
            na = fresh('ins', arr.sort())
            k = fresh('k', IntS)
            st = st.assume(z3.ForAll([k], na[k] == z3.If(k < j, arr[k], z3.If(k == j, t, arr[k - 1]))))
            st = self.HS(st, La, z3.Store(self.H(st, La), a, na))
            st = self.HS(st, Ll, z3.Store(self.H(st, Ll), a, n + 1))
            yield st, NONE_SV
        elif name == 'index':
            (x,) = args
            if code == 'R':
                self.check_identity_eq(SV(arr[0], elemty), x)
            p = fresh('pos', IntS)
            k = fresh('k', IntS)
            xe = lambda i: self.eq(st, SV(arr[i], elemty), x)
            found = z3.And(0 <= p, p < n, xe(p), z3.ForAll([k], z3.Implies(z3.And(0 <= k, k < p), z3.Not(xe(k)))))
            absent = z3.ForAll([k], z3.Implies(z3.And(0 <= k, k < n), z3.Not(xe(k))))
            s1 = st.assume(found)
            if self.feasible(s1):
                yield s1, SV(p, INT)
            s2 = st.assume(absent)
            if self.feasible(s2):
                yield self.raise_(s2, ValueError, 'not in list')
        elif name == 'remove':
            (x,) = args
            if code == 'R':
                self.check_identity_eq(SV(arr[0], elemty), x)
            p = fresh('pos', IntS)
            k = fresh('k', IntS)
            xe = lambda i: self.eq(st, SV(arr[i], elemty), x)
            found = z3.And(0 <= p, p < n, xe(p), z3.ForAll([k], z3.Implies(z3.And(0 <= k, k < p), z3.Not(xe(k)))))
            absent = z3.ForAll([k], z3.Implies(z3.And(0 <= k, k < n), z3.Not(xe(k))))
            s1 = st.assume(found)
            if self.feasible(s1):
                na = fresh('rem', arr.sort())
                s1 = s1.assume(z3.ForAll([k], na[k] == z3.If(k < p, arr[k], arr[k + 1])))
                s1 = self.HS(s1, La, z3.Store(self.H(s1, La), a, na))
                s1 = self.HS(s1, Ll, z3.Store(self.H(s1, Ll), a, n - 1))
                s1.ghost = dict(s1.ghost)
                s1.ghost['last_removed_pos'] = p
                yield s1, NONE_SV
            s2 = st.assume(absent)
            if self.feasible(s2):
                yield self.raise_(s2, ValueError, 'list.remove(x): x not in list')
        elif name == 'pop':
            if args:
                i = self.int_of(args[0])
            else:
                i = -1
            j, ok = self.norm_index(i, n)
            for st1, b in self.branch(st, ok):
                if not b:
                    yield self.raise_(st1, IndexError, 'pop index out of range')
                    continue
                k = fresh('k', IntS)
                na = fresh('pop', arr.sort())
                st1 = st1.assume(z3.ForAll([k], na[k] == z3.If(k < j, arr[k], arr[k + 1])))
                st1, v = (self.unbox(st1, arr[j], elemty) if code == 'V' and code_of(elemty) != 'V'
                          else self.from_heap(st1, arr[j], elemty))
                st1 = self.HS(st1, La, z3.Store(self.H(st1, La), a, na))
                st1 = self.HS(st1, Ll, z3.Store(self.H(st1, Ll), a, n - 1))
                yield st1, v
        elif name == 'extend':
            (x,) = args
            if x.is_py and isinstance(x.py, GenV):
                node = x.py.node
                st1 = st.copy()
                saved = st1.locals
                st1.locals = dict(x.py.locals)
                lc = ast.ListComp(elt=node.elt, generators=node.generators)
                for st2, lst in self.comprehension(lc, st1, x.py.fr, 'list'):
                    st3 = st2.copy()
                    st3.locals = saved
                    if isinstance(lst, Raised):
                        yield st3, lst
                    else:
                        for r in self.list_method(st3, recv, 'extend', [lst], {}, fr):
                            yield r
                return
            if x.is_py and isinstance(x.py, tuple):
                for r in self._extend_items(st, recv, list(x.py), fr):
                    yield r
                return
            if x.is_py or x.ty.kind not in ('list', 'tuple'):
                raise OutOfReach('extend with %r' % (x,))
            if self.seq_code(x.ty) != code:
                raise OutOfReach('extend with different storage (%r into %r)' % (x.ty, recv.ty))
            self.check_assignable(SV(None, self.seq_elem_type(x.ty)), elemty, 'list element') if False else None
            m = self.H(st, Ll)[x.term]
            src = self.H(st, La)[x.term]
            na = fresh('ext', arr.sort())
            k = fresh('k', IntS)
            st = st.assume(z3.ForAll([k], na[k] == z3.If(k < n, arr[k], src[k - n])))
            st = self.HS(st, La, z3.Store(self.H(st, La), a, na))
            st = self.HS(st, Ll, z3.Store(self.H(st, Ll), a, n + m))
            yield st, NONE_SV
        elif name == 'count':
            raise OutOfReach('list.count')
        else:
            raise OutOfReach('list.%s' % name)

    def _extend_items(self, st, recv, items, fr):
        if not items:
            yield st, NONE_SV
            return
        for st1, r in self.list_method(st, recv, 'append', [items[0]], {}, fr):
            if isinstance(r, Raised):
                yield st1, r
            else:
                for x in self._extend_items(st1, recv, items[1:], fr):
                    yield x

    def note_list_mutation(self, st, recv):
        pass

    # -- dict --------------------------------------------------------------------------------------
    def dict_method(self, st, recv, name, args, kwargs, fr):
        a = recv.term
        valty = recv.ty.args[0]
        code = code_of(valty)
        dom = self.H(st, 'Dd')[a]
        val = self.H(st, 'Dv.' + code)[a]
        if name == 'get':
            k = args[0]
            default = args[1] if len(args) > 1 else NONE_SV
            kt = self.dict_key(k)
            if kt is None:
                yield st, default
                return
            for st1, b in self.branch(st, dom[kt]):
                if b:
                    yield self.from_heap(st1, val[kt], valty)
                else:
                    yield st1, default
        elif name == 'keys':
            yield st, mk(DictKeys(recv))
        elif name == 'items':
            yield st, mk(DictItems(recv))
        elif name == 'values':
            yield st, mk(DictValues(recv))
        elif name == 'update':
            (d,) = args
            sh = self.dict_shadow(st, d)
            if sh is None:
                raise OutOfReach('dict.update with a dict of unknown key set')
            for k, v in sh:
                st = self.dict_store(st, recv, mk(k), v)
            yield st, NONE_SV
        elif name == 'copy':
            st, r = self.alloc(st, 'dict')
            st = self.HS(st, 'Dd', z3.Store(self.H(st, 'Dd'), r, dom))
            st = self.HS(st, 'Dv.' + code, z3.Store(self.H(st, 'Dv.' + code), r, val))
            yield st, SV(r, recv.ty)
        else:
            raise OutOfReach('dict.%s' % name)

    def dict_store(self, st, d, key, val):
        valty = d.ty.args[0]
        code = code_of(valty)
        self.check_assignable(val, valty, 'dict value')
        kt = self.dict_key(key)
        if kt is None:
            raise OutOfReach('dict store with key %r' % (key,))
        st, t = self.store_term(st, val, code)
        a = d.term
        sk = 'shadow:%s' % a
        if sk in st.ghost:
            st = st.copy()
            if key.is_py:
                st.ghost[sk] = tuple((kk, vv) for kk, vv in st.ghost[sk] if kk != key.py) + ((key.py, val),)
            else:
                del st.ghost[sk]
        st = self.HS(st, 'Dd', z3.Store(self.H(st, 'Dd'), a, z3.Store(self.H(st, 'Dd')[a], kt, z3.BoolVal(True))))
        st = self.HS(st, 'Dv.' + code, z3.Store(self.H(st, 'Dv.' + code), a, z3.Store(self.H(st, 'Dv.' + code)[a], kt, t)))
        return st

    def dict_delete(self, st, d, key):
        kt = self.dict_key(key)
        if kt is None:
            raise OutOfReach('dict delete with key %r' % (key,))
        a = d.term
        present = self.H(st, 'Dd')[a][kt]
        for st1, b in self.branch(st, present):
            if b:
                st1 = self.HS(st1, 'Dd', z3.Store(self.H(st1, 'Dd'), a, z3.Store(self.H(st1, 'Dd')[a], kt, z3.BoolVal(False))))
                yield st1, None
            else:
                yield self.raise_(st1, KeyError, key)

    def pydict_method(self, st, recv, name, args, kwargs, fr):
        d = recv.py
        if name == 'get':
            k = args[0]
            default = args[1] if len(args) > 1 else NONE_SV
            if k.is_py:
                yield st, d.items.get(k.py, default)
                return
            kt = self.term(k, 'S') if self.num_or_str(k) == 'S' else None
            if kt is None:
                raise OutOfReach('literal dict .get with non-str key')
            for key, v in d.items.items():
                for st1, b in self.branch(st, kt == z3.StringVal(key)):
                    if b:
                        yield st1, v
            for st1, b in self.branch(st, z3.And(*[kt != z3.StringVal(key) for key in d.items]) if d.items else True):
                if b:
                    yield st1, default
        elif name == 'keys':
            yield st, mk(frozenset(d.items))
        else:
            raise OutOfReach('literal dict .%s' % name)

    def constdict_method(self, st, recv, name, args, kwargs, fr):
        d = recv.py
        if name == 'values':
            yield st, mk(DictValues(recv))
        elif name == 'get' and args[0].is_py:
            yield st, mk(d.get(args[0].py, args[1].py if len(args) > 1 else None))
        elif name == 'get':
            k = args[0]
            default = args[1] if len(args) > 1 else NONE_SV
            kt = self.term(k, 'S')
            for key, v in d.items():
                for st1, b in self.branch(st, kt == z3.StringVal(key)):
                    if b:
                        yield st1, mk(v)
            for st1, b in self.branch(st, z3.And(*[kt != z3.StringVal(key) for key in d]) if d else True):
                if b:
                    yield st1, default
        elif name == 'keys':
            yield st, mk(frozenset(d))
        else:
            raise OutOfReach('constant dict .%s' % name)

    def delattr_(self, st, base, attr, fr):
        if base.is_py or base.ty.kind != 'obj':
            raise OutOfReach('delattr on %r' % (base,))
        cname = base.ty.args[0]
        dcls, d = self.class_lookup(cname, '__delattr__')
        if d is not None and dcls is not object:
            self.check_uniform(cname, '__delattr__', d)
            for st1, r in self.call_function(st, d, [base, mk(attr)], {}, fr, defcls=dcls):
                yield st1, (r if isinstance(r, Raised) else NONE_SV)
            return
        raise OutOfReach('object.__delattr__')

    def call_method(self, st, obj, name, args, kwargs, fr):
        """obj.name(*args) for an object-typed SV (used for dunder protocol calls)"""
        for st1, m in self.getattr_(st, obj, name, fr):
            if isinstance(m, Raised):
                yield st1, m
                continue
            for r in self.call(st1, m, args, kwargs, fr):
                yield r


class SetOf(object):
    """set(x) for x a dict-keys view / a conditional list / a string's characters: supports the idioms
    `required - set(d.keys())` and `len(xs) > len(set(xs))` (duplicate test)."""

    def __init__(self, kind, src):
        self.kind = kind
        self.src = src

    def card(self, ex, st):
        """(st, SV) number of distinct elements"""
        if self.kind == 'chars':
            t = self.src.term
            dc = fresh('dcount', IntS)
            i = fresh('i', IntS)
            j = fresh('j', IntS)
            n = z3.Length(t)
            distinct = z3.ForAll([i, j], z3.Implies(z3.And(0 <= i, i < j, j < n),
                                                    z3.SubString(t, i, 1) != z3.SubString(t, j, 1)))
            st = st.assume(z3.And(dc >= 0, dc <= n, z3.Implies(n > 0, dc >= 1), (dc == n) == distinct))
            return st, SV(dc, INT)
        if self.kind == 'condlist':
            items = self.src.items
            terms = []
            for a, (ca, va) in enumerate(items):
                dup_earlier = []
                for b in range(a):
                    cb, vb = items[b]
                    e = ex.eq(st, va, vb)
                    dup_earlier.append(ex.and_([cb, e]))
                first = ex.and_([ca, ex.not_(ex.or_(dup_earlier))])
                first = first if not isinstance(first, bool) else z3.BoolVal(first)
                terms.append(z3.If(first, 1, 0))
            return st, SV(z3.Sum(*terms) if terms else z3.IntVal(0), INT)
        if self.kind == 'dictvalues':
            # number of distinct values of a dict: an uninterpreted function of its key set and value map, between 1 (for
            # a non-empty dict) and the number of keys, equal to the number of keys exactly when no two keys share a value
            d = self.src
            a = d.term
            code = code_of(d.ty.args[0])
            dom = ex.H(st, 'Dd')[a]
            vals = ex.H(st, 'Dv.' + code)[a]
            size = ex.uf('dsize', z3.ArraySort(StrS, BoolS), IntS)(dom)
            dc = ex.uf('dvalues_distinct', dom.sort(), vals.sort(), IntS)(dom, vals)
            k1 = fresh('k1', StrS)
            k2 = fresh('k2', StrS)
            inj = z3.ForAll([k1, k2], z3.Implies(z3.And(dom[k1], dom[k2], k1 != k2), vals[k1] != vals[k2]))
            st = st.assume(z3.And(dc >= 0, dc <= size, z3.Implies(size > 0, dc >= 1), (dc == size) == inj))
            return st, SV(dc, INT)
        raise OutOfReach('cardinality of set(%s)' % self.kind)


class TakeWhileRev(object):
    """takewhile(pred, reversed(xs)) kept symbolic; list(...) gives the trailing run satisfying pred"""

    def __init__(self, pred, seq, fr):
        self.pred = pred
        self.seq = seq
        self.fr = fr

    def materialise(self, ex, st):
        seq = self.seq
        if seq.is_py or seq.ty.kind != 'list':
            raise OutOfReach('takewhile over %r' % (seq,))
        n = ex.H(st, 'Ll')[seq.term]
        code = ex.seq_code(seq.ty)
        elemty = ex.seq_elem_type(seq.ty)
        arr = ex.H(st, 'La.' + code)[seq.term]
        # trailing run length t: 0 <= t <= n, all of xs[n-t:] satisfy pred, and (t == n or not pred(xs[n-t-1]))
        t = fresh('trail', IntS)
        k = fresh('k', IntS)

        def pred_at(i):
            x = SV(arr[i], elemty)
            rs = list(ex.call_lambda(st, self.pred, [x]))
            if len(rs) != 1 or isinstance(rs[0][1], Raised):
                raise OutOfReach('takewhile predicate not pure')
            c = ex.truth(rs[0][0], rs[0][1])
            if c is None:
                raise OutOfReach('takewhile predicate needs a call')
            return c if not isinstance(c, bool) else z3.BoolVal(c)
        st = st.assume(z3.And(0 <= t, t <= n))
        st = st.assume(z3.ForAll([k], z3.Implies(z3.And(n - t <= k, k < n), pred_at(k))))
        st = st.assume(z3.Or(t == n, z3.Not(pred_at(n - t - 1))))
        st, r = ex.alloc(st, 'list')
        na = fresh('tw', arr.sort())
        st = st.assume(z3.ForAll([k], z3.Implies(z3.And(0 <= k, k < t), na[k] == arr[n - 1 - k])))
        st = ex.HS(st, 'La.' + code, z3.Store(ex.H(st, 'La.' + code), r, na))
        st = ex.HS(st, 'Ll', z3.Store(ex.H(st, 'Ll'), r, t))
        return st, SV(r, seq.ty)
