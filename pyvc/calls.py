"""Attribute access, calls (modular: callee contracts; transparent helpers inlined), builtins."""
import ast
import builtins as _bi
import inspect
import types as _types
import z3

from .tys import *     # noqa
from .engine import (SV, mk, NOPY, NONE_SV, PYOBJ, ExcVal, Raised, OutOfReach, Val, VNONE, SORTS, IntS, BoolS, StrS,
                     code_of, fresh, fresh_name, VC, Frame, State)
from .expr import (BoundMethod, BoundBuiltin, SuperProxy, LambdaV, GenV, PyDict, CondSet, DictKeys, DictItems,
                   DictValues, CondList, EnumV, RangeV, ReversedV, SymSetComp, is_pyobj)
from . import source


class ClassDep(object):
    """a class attribute whose value depends on the dynamic class of `obj`"""

    def __init__(self, obj, vals):
        self.obj = obj
        self.vals = vals


class ClassOf(object):
    """type(obj) of a heap object: decided by the class table of the heap (exact class, not isinstance)"""

    def __init__(self, obj):
        self.obj = obj


class EngineCallable(object):
    """engine-level callable: fn(ex, st, args, kwargs, fr) -> iterable of (st, SV|Raised)"""

    def __init__(self, fn):
        self.fn = fn


def func_key(fn):
    return '%s:%s' % (fn.__module__, fn.__qualname__)


class CallMixin(object):

    # ------------------------------------------------------------------ attributes
    def ev_Attribute(self, node, st, fr):
        for st1, base in self.ev(node.value, st, fr):
            if isinstance(base, Raised):
                yield st1, base
                continue
            for r in self.getattr_(st1, base, node.attr, fr):
                yield r

    def class_lookup(self, clsname, attr):
        """(defining class, raw attribute) along the MRO of the real class, or (None, None)"""
        cls = self.world.classes.get(clsname)
        if cls is None:
            return None, None
        for k in cls.__mro__:
            if attr in k.__dict__:
                return k, k.__dict__[attr]
        return None, None

    def getattr_(self, st, base, attr, fr):
        if base.is_py:
            v = base.py
            if isinstance(v, SuperProxy):
                yield st, self.super_attr(v, attr)
                return
            if v is None:
                yield self.raise_(st, AttributeError, attr)
                return
            if isinstance(v, (str, tuple, frozenset, PyDict, CondSet, CondList)) or (isinstance(v, (dict, list)) and not isinstance(v, type)):
                yield st, mk(BoundBuiltin(base, attr))
                return
            if isinstance(v, ExcVal):
                if attr == 'args':
                    yield st, SV(None, Ty('pytuple'), tuple(v.args))
                    return
                raise OutOfReach('attribute %s of exception value' % attr)
            if isinstance(v, (_types.ModuleType, type)):
                try:
                    a = getattr(v, attr)
                except AttributeError:
                    yield self.raise_(st, AttributeError, attr)
                    return
                if isinstance(v, _types.ModuleType):
                    gk = '%s:%s' % (v.__name__, attr)
                    if gk in self.world.globals_schema:
                        self.note_read_global(st, gk)
                        yield self.from_heap(st, self.H(st, 'g.' + gk), self.world.globals_schema[gk])
                        return
                yield st, mk(a)
                return
            if hasattr(v, 'match_obj_attr'):
                yield v.match_obj_attr(self, st, attr)
                return
            if isinstance(v, ClassOf) and attr == '__name__':
                cid = self.H(st, 'cls')[v.obj.term]
                t = z3.StringVal('?')
                for n, i in sorted(self.world.class_ids.items(), key=lambda kv: kv[1]):
                    t = z3.If(cid == i, z3.StringVal(n), t)
                yield st, SV(t, STR)
                return
            raise OutOfReach('attribute %s of python object %r' % (attr, v))
        k = base.ty.kind
        if k in ('str', 'bytes', 'list', 'dict', 'tuple', 'set'):
            yield st, mk(BoundBuiltin(base, attr))
            return
        if k == 'opt':
            for st1, b in self.branch(st, self.is_none(base)):
                if b:
                    yield self.raise_(st1, AttributeError, "'NoneType' object has no attribute '%s'" % attr)
                else:
                    inner = base.ty.args[0]
                    if inner.is_ref:
                        u = SV(base.term, inner)
                    else:
                        st1, u = self.unbox(st1, base.term, inner)
                    for r in self.getattr_(st1, u, attr, fr):
                        yield r
            return
        if k == 'none':
            yield self.raise_(st, AttributeError, attr)
            return
        if k == 'obj':
            for r in self.obj_getattr(st, base, attr, fr):
                yield r
            return
        raise OutOfReach('attribute %s of %r' % (attr, base))

    def obj_getattr(self, st, obj, attr, fr):
        cname = obj.ty.args[0]
        if attr == '__class__':
            if cname not in self.world.classes:
                raise OutOfReach('__class__ of an abstract record')
            yield st, mk(ClassOf(obj))
            return
        if cname not in self.world.classes:
            # abstract record: schema field
            fty = self.world.field_type(cname, attr)
            if fty is None:
                hook = self.world.specfuncs.get('method:%s.%s' % (cname, attr))
                if hook is not None:
                    # a method of an abstract (external) object, given by its model
                    yield st, mk(EngineCallable(lambda ex, st_, args, kwargs, fr_, hook=hook, obj=obj: hook(ex, st_, obj, args, kwargs, fr_)))
                    return
                raise OutOfReach('no schema for %s.%s' % (cname, attr))
            yield self.read_field(st, obj, attr)
            return
        defcls, raw = self.class_lookup(cname, attr)
        # subclasses overriding the attribute with something different make the lookup class-dependent
        if raw is not None:
            self.check_uniform(cname, attr, raw)
        if isinstance(raw, property):
            for r in self.call_function(st, raw.fget, [obj], {}, fr, defcls=defcls):
                yield r
            return
        if isinstance(raw, staticmethod):
            yield st, mk(raw.__func__)
            return
        if isinstance(raw, _types.FunctionType):
            yield st, mk(BoundMethod(raw, obj, defcls))
            return
        fty = self.world.field_type(cname, attr)
        if fty is not None:
            yield self.read_field(st, obj, attr)
            return
        if raw is not None:
            if isinstance(raw, (_types.GetSetDescriptorType, _types.MemberDescriptorType, _types.WrapperDescriptorType,
                                _types.MethodDescriptorType)):
                # a descriptor of `object` / a C type (__class__, __dict__, __doc__ ...): its value is not the descriptor
                raise OutOfReach('attribute %s.%s is a built-in descriptor: not modelled' % (cname, attr))
            # plain class attribute (constant); may differ between the subclasses of the static class
            vals = {}
            for n in self.world.subclasses(cname):
                c, r = self.class_lookup(n, attr)
                vals[n] = r
            if all(v is raw or v == raw for v in vals.values()):
                yield st, mk(raw)
            else:
                yield st, mk(ClassDep(obj, vals))
            return
        # __getattr__ fallback
        gcls, g = self.class_lookup(cname, '__getattr__')
        if g is not None:
            self.check_uniform(cname, '__getattr__', g)
            for r in self.call_function(st, g, [obj, mk(attr)], {}, fr, defcls=gcls):
                yield r
            return
        raise OutOfReach('unknown attribute %s.%s (add it to the schema)' % (cname, attr))

    def check_uniform(self, cname, attr, raw):
        """all subclasses of the static class resolve `attr` to the same definition, or the definition found is
        covered by an interface contract (checked at call time)"""
        for n in self.world.subclasses(cname):
            c, r = self.class_lookup(n, attr)
            if r is not raw:
                if isinstance(raw, (_types.FunctionType, property, staticmethod)):
                    # overridden method: allowed only through an interface contract; recorded for the call site
                    self.notes.append('dynamic dispatch: %s.%s overridden in %s' % (cname, attr, n))
                    continue
                # plain class attributes are resolved per dynamic class (ClassDep)

    def read_field(self, st, obj, attr):
        cname = obj.ty.args[0]
        fty = self.world.field_type(cname, attr)
        key = self.world.field_key(cname, attr)
        arr = self.H(st, key)
        return self.from_heap(st, arr[obj.term], fty)

    def write_field(self, st, obj, attr, val):
        cname = obj.ty.args[0]
        fty = self.world.field_type(cname, attr)
        if fty is None:
            raise OutOfReach('store to unknown field %s.%s' % (cname, attr))
        key = self.world.field_key(cname, attr)
        st, val = self.narrow_for_store(st, val, fty, '%s.%s' % (cname, attr))
        st, t = self.store_term(st, val, code_of(fty))
        self.check_assignable(val, fty, '%s.%s' % (cname, attr))
        st = self.HS(st, key, z3.Store(self.H(st, key), obj.term, t))
        return st

    def narrow_for_store(self, st, val, ty, where):
        """a None-able value stored into a non-optional place: the obligation that it is not None is emitted (heap
        well-typedness is checked, not assumed, at stores) and the value is narrowed"""
        if val.is_py or val.ty.kind != 'opt' or ty.kind in ('opt', 'any'):
            return st, val
        inner = val.ty.args[0]
        isn = self.is_none(val)
        goal = z3.Not(isn) if not isinstance(isn, bool) else z3.BoolVal(not isn)
        self.vcs.append(VC('%s#store.nonnull.%s@%s' % (self.top_key, where, fresh_name('site')), st.pc, goal, 'type',
                           {'clause': 'value stored into %s is not None' % where}))
        if inner.is_ref:
            return st, SV(val.term, inner)
        return self.unbox(st, val.term, inner)

    def check_assignable(self, val, ty, where):
        """static type check of a store (keeps the heap well-typed w.r.t. the schema)"""
        vt = self.static_type(val)
        if ty.kind == 'any':
            return
        if vt.kind == 'none':
            if ty.kind == 'opt':
                return
            raise OutOfReach('None stored into non-optional %s' % where)
        base = ty.args[0] if ty.kind == 'opt' else ty
        vb = vt.args[0] if vt.kind == 'opt' else vt
        if vt.kind == 'opt' and ty.kind != 'opt':
            raise OutOfReach('optional value stored into non-optional %s' % where)
        if base.kind == 'obj' and vb.kind == 'obj':
            a, b = base.args[0], vb.args[0]
            if a in self.world.classes and b in self.world.classes:
                if not issubclass(self.world.classes[b], self.world.classes[a]):
                    raise OutOfReach('%s stored into %s of type %s' % (b, where, a))
            elif a != b:
                raise OutOfReach('%s stored into %s of type %s' % (b, where, a))
            return
        if base.kind != vb.kind and not (base.kind in ('str', 'bytes') and vb.kind in ('str', 'bytes')):
            if vb.kind == 'any':
                raise OutOfReach('dynamically typed value stored into %s of type %r' % (where, ty))
            raise OutOfReach('%r stored into %s of type %r' % (vt, where, ty))

    def super_attr(self, sp, attr):
        cls = self.world.classes[sp.static_cls]
        mro = list(cls.__mro__)
        i = mro.index(sp.after_cls)
        for k in mro[i + 1:]:
            if attr in k.__dict__:
                raw = k.__dict__[attr]
                if isinstance(raw, _types.FunctionType):
                    bm = BoundMethod(raw, sp.selfv, k)
                    bm.exact = True          # super() binds exactly this function: no dynamic dispatch
                    return mk(bm)
                if isinstance(raw, property):
                    raise OutOfReach('super() property access')
                if k is object:
                    return mk(BoundBuiltin(mk(('object', sp.selfv)), attr))
                raise OutOfReach('super().%s resolves to %r' % (attr, raw))
        raise OutOfReach('super().%s not found' % attr)

    def setattr_(self, st, base, attr, val, fr):
        """yields (st, None|Raised)"""
        if base.is_py:
            raise OutOfReach('attribute store on python object %r' % (base.py,))
        k = base.ty.kind
        if k == 'opt':
            for st1, b in self.branch(st, self.is_none(base)):
                if b:
                    yield self.raise_(st1, AttributeError, attr)
                else:
                    for r in self.setattr_(st1, SV(base.term, base.ty.args[0]), attr, val, fr):
                        yield r
            return
        if k != 'obj':
            raise OutOfReach('attribute store on %r' % (base,))
        cname = base.ty.args[0]
        scls, s = self.class_lookup(cname, '__setattr__')
        # attribute-specialised interface contract  <Class>.__setattr__[attr]  along the MRO of the static class
        if cname in self.world.classes:
            # (a contract may be specialised further by the kind of value stored: <Class>.__setattr__[attr/list])
            vkind = 'list' if (val.is_py and isinstance(val.py, list)) or (not val.is_py and val.ty.kind == 'list') else None
            mro = self.world.classes[cname].__mro__
            kinded = None
            if vkind is not None:
                for k in mro:
                    ck2 = '%s:%s.__setattr__[%s/%s]' % (k.__module__, k.__qualname__, attr, vkind)
                    if ck2 in self.world.contracts:
                        kinded = ck2
                        break
            for k in mro:
                ck = kinded or '%s:%s.__setattr__[%s]' % (k.__module__, k.__qualname__, attr)
                c = self.world.contracts.get(ck)
                if c is not None and (ck != self.top_key_active() or self.call_stack):
                    if ck == self.top_key_active():
                        break
                    for st1, r in self.apply_contract_env(st, c, {'self': base, 'name': mk(attr), 'value': val}):
                        yield st1, (r if isinstance(r, Raised) else None)
                    return
        if s is not None and scls is not object:
            self.check_uniform(cname, '__setattr__', s)
            for st1, r in self.call_function(st, s, [base, mk(attr), val], {}, fr, defcls=scls):
                yield st1, (r if isinstance(r, Raised) else None)
            return
        for r in self.object_setattr(st, base, attr, val, fr):
            yield r

    def object_setattr(self, st, obj, attr, val, fr):
        """object.__setattr__: data descriptors (properties) first, then the instance dict"""
        cname = obj.ty.args[0]
        defcls, raw = self.class_lookup(cname, attr)
        if isinstance(raw, property):
            if raw.fset is None:
                yield self.raise_(st, AttributeError, "can't set attribute")
                return
            self.check_uniform(cname, attr, raw)
            for st1, r in self.call_function(st, raw.fset, [obj, val], {}, fr, defcls=defcls):
                yield st1, (r if isinstance(r, Raised) else None)
            return
        yield self.write_field(st, obj, attr, val), None

    # ------------------------------------------------------------------ calls
    def ev_Call(self, node, st, fr):
        # special forms first
        f = node.func
        if isinstance(f, ast.Name) and f.id == 'super' and f.id not in st.locals:
            yield self.ev_super(node, st, fr)
            return
        for st1, fn in self.ev(f, st, fr):
            if isinstance(fn, Raised):
                yield st1, fn
                continue
            # positional args (with *starred expansion of engine tuples)
            for st2, args in self.ev_args(node.args, st1, fr):
                if isinstance(args, Raised):
                    yield st2, args
                    continue
                for st3, kwargs in self.ev_kwargs(node.keywords, st2, fr):
                    if isinstance(kwargs, Raised):
                        yield st3, kwargs
                        continue
                    self.emit_call_asserts(st3, node, args, kwargs)
                    for r in self.call(st3, fn, args, kwargs, fr, node):
                        yield r

    def emit_call_asserts(self, st, node, args, kwargs):
        """contract clause `call_asserts={'<callee source text>': [(name, expr), ...]}`: obligations about the arguments
        of every call of that callee in the function under verification (expr over the caller's locals, `arg(i)` and
        `kwarg('name')`): what is handed on is what the property says must be handed on"""
        c = getattr(self, 'cur_contract', None)
        ca = getattr(c, 'call_asserts', None)
        if not ca or self.call_stack:
            return
        src = ast.unparse(node.func)
        if src not in ca:
            return
        self._cur_call = (args, kwargs)
        try:
            env = dict(st.locals)
            env.update(getattr(self, '_spec_env_params', {}))
            for name, e in ca[src]:
                goal = self.spec_bool(e, st, dict(st.locals), getattr(self, '_verify_pre', None), as_goal=True)
                self.vcs.append(VC('%s#callsite.%s.%s@%s' % (c.key, src, name, fresh_name('site')), st.pc, goal,
                                   'call_assert', {'clause': e, 'callee': src, 'line': getattr(node, 'lineno', None)}))
        finally:
            self._cur_call = None

    def ev_args(self, nodes, st, fr):
        if not nodes:
            yield st, []
            return
        n0 = nodes[0]
        if isinstance(n0, ast.Starred):
            for st1, v in self.ev(n0.value, st, fr):
                if isinstance(v, Raised):
                    yield st1, v
                    continue
                if v.is_py and isinstance(v.py, tuple):
                    head = list(v.py)
                else:
                    raise OutOfReach('*args expansion of %r' % (v,))
                for st2, rest in self.ev_args(nodes[1:], st1, fr):
                    yield st2, (rest if isinstance(rest, Raised) else head + rest)
            return
        for st1, v in self.ev(n0, st, fr):
            if isinstance(v, Raised):
                yield st1, v
                continue
            for st2, rest in self.ev_args(nodes[1:], st1, fr):
                yield st2, (rest if isinstance(rest, Raised) else [v] + rest)

    def ev_kwargs(self, kws, st, fr):
        if not kws:
            yield st, {}
            return
        k0 = kws[0]
        for st1, v in self.ev(k0.value, st, fr):
            if isinstance(v, Raised):
                yield st1, v
                continue
            if k0.arg is None:
                sh = self.dict_shadow(st1, v)
                if sh is None:
                    raise OutOfReach('**kwargs expansion of %r' % (v,))
                head = dict(sh)
            else:
                head = {k0.arg: v}
            for st2, rest in self.ev_kwargs(kws[1:], st1, fr):
                if isinstance(rest, Raised):
                    yield st2, rest
                else:
                    d = dict(head)
                    d.update(rest)
                    yield st2, d

    def ev_super(self, node, st, fr):
        if len(node.args) == 2:
            rs = list(self.ev(node.args[0], st, fr))
            cls = rs[0][1].py
            selfv = st.locals[node.args[1].id]
        elif not node.args:
            cls = fr.cls
            selfv = st.locals['self']
        else:
            raise OutOfReach('super() form')
        static = selfv.ty.args[0]
        return st, mk(SuperProxy(cls, selfv, static))

    def call(self, st, fn, args, kwargs, fr, node=None):
        """yields (st, SV|Raised)"""
        if not fn.is_py:
            if fn.ty.kind == 'obj' or fn.ty.kind == 'any':
                # a callable read from data: only through the `dynamic_calls` clause of the function's contract, which
                # names the (assumed) contract every possible callee satisfies
                c = getattr(self, 'cur_contract', None)
                dyn = getattr(c, 'dynamic_calls', None) or {}
                src = ast.unparse(node.func) if node is not None else None
                if src in dyn and not self.call_stack:
                    return self.call_dynamic(st, dyn[src], args, kwargs, fr)
                raise OutOfReach('call of a symbolic callable')
            raise OutOfReach('call of %r' % (fn,))
        f = fn.py
        if isinstance(f, BoundMethod):
            return self.call_function(st, f.func, [f.selfv] + args, kwargs, fr, defcls=f.defcls,
                                      exact=getattr(f, 'exact', False))
        if isinstance(f, BoundBuiltin):
            return self.call_builtin_method(st, f.recv, f.name, args, kwargs, fr)
        if isinstance(f, LambdaV):
            return self.call_lambda(st, f, args)
        if isinstance(f, EngineCallable):
            return f.fn(self, st, args, kwargs, fr)
        if isinstance(f, _types.FunctionType):
            if not (f.__module__ or '').startswith('hl7apy'):
                return self.call_external(st, f, args, kwargs, fr)
            return self.call_function(st, f, args, kwargs, fr)
        if isinstance(f, type):
            return self.call_class(st, f, args, kwargs, fr)
        if isinstance(f, _types.BuiltinFunctionType) or f in (hasattr, getattr, setattr, delattr, isinstance, len):
            return self.call_builtin(st, f, args, kwargs, fr)
        if isinstance(f, _types.MethodType) or callable(f):
            return self.call_external(st, f, args, kwargs, fr)
        raise OutOfReach('call of python object %r' % (f,))

    def call_dynamic(self, st, spec, args, kwargs, fr):
        """spec = {'contract': key, 'new': ClassName | None}: apply the named contract; with 'new' the callee is a
        constructor of some subclass of ClassName and the result is the fresh object"""
        c = self.world.contracts[spec['contract']]
        names = list(c.sig)
        env = {}
        pos = list(args)
        obj = None
        if spec.get('new'):
            st, a = self.alloc_subclass(st, spec['new'])
            obj = SV(a, ObjT(spec['new']))
            env[names[0]] = obj
            names = names[1:]
        for n in names:
            if pos:
                env[n] = pos.pop(0)
            elif n in kwargs:
                env[n] = kwargs[n]
            else:
                env[n] = NONE_SV
        extra = [k for k in kwargs if k not in c.sig]
        if pos or extra:
            raise OutOfReach('dynamic call with arguments the assumed contract does not name: %s' % (extra or 'positional'))
        self.notes.append('dynamic call through assumed contract %s' % c.key)
        return self.apply_contract_env(st, c, env, result_override=obj)

    def alloc_subclass(self, st, cname):
        """a fresh object whose class is some subclass of cname"""
        st1 = st.copy()
        a = self.H(st1, 'next')
        st1.heap['next'] = a + 1
        cid = fresh('dyn_cls', IntS)
        ids = self.world.subclass_ids(cname)
        st1.pc.append(z3.Or(*[cid == i for i in ids]))
        st1.heap['cls'] = z3.Store(self.H(st1, 'cls'), a, cid)
        return st1, a

    def call_lambda(self, st, lam, args):
        node = lam.node
        names = [a.arg for a in node.args.args]
        if len(names) != len(args):
            raise OutOfReach('lambda arity')
        st1 = st.copy()
        saved = st1.locals
        st1.locals = dict(lam.locals)
        for n, a in zip(names, args):
            st1.locals[n] = a
        for st2, r in self.ev(node.body, st1, lam.fr):
            st3 = st2.copy()
            st3.locals = saved
            yield st3, r

    # -- user functions -------------------------------------------------------------------------
    def resolve_func(self, fn):
        """python function object -> FuncSrc in the working tree (re-read every run)"""
        key = func_key(fn)
        try:
            return source.get_func(key)
        except (KeyError, IOError, OSError):
            return None

    def call_function(self, st, fn, args, kwargs, fr, defcls=None, exact=False):
        key = func_key(fn)
        contract = self.world.contracts.get(key)
        if key.endswith('.__setattr__') and len(args) == 3 and args[1].is_py and isinstance(args[1].py, str) and exact:
            # statically bound super().__setattr__(<constant name>, v): the attribute-specialised contract of that class
            ck = '%s[%s]' % (key, args[1].py)
            spec_c = self.world.contracts.get(ck)
            if spec_c is not None and ck != self.top_key_active():
                def only_none(rs):
                    for st1, r in rs:
                        yield st1, (r if isinstance(r, Raised) else NONE_SV)
                return only_none(self.apply_contract_env(st, spec_c, {'self': args[0], 'name': args[1], 'value': args[2]}))
        if exact:
            # statically bound call (super()): the implementation contract, not the interface, if there is one
            impl = self.world.contracts.get(key + '[impl]')
            if impl is not None:
                return self.apply_contract(st, impl, fn, args, kwargs, fr)
        # dynamic dispatch: if the receiver's static class has subclasses overriding this method, the call must
        # go through an interface contract
        is_own_self = bool(args) and not args[0].is_py and args[0].term is not None and str(args[0].term) == 'p.self'
        if args and not args[0].is_py and args[0].ty.kind == 'obj' and defcls is not None \
                and args[0].ty.args[0] in self.world.classes and not (getattr(self, 'exact_self', False) and is_own_self):
            over = self.overriders(args[0].ty.args[0], fn) if not exact else []
            if over and (contract is None or not contract.interface):
                if not (len(self.call_stack) and self.call_stack[-1][1] is args[0] and False):
                    raise OutOfReach('call of %s on static type %s is overridden in %s and has no interface contract'
                                     % (key, args[0].ty.args[0], ', '.join(over)))
        if contract is not None and not contract.inline:
            # (a call of the function under verification itself is a recursive call: its own contract is used -
            # partial correctness)
            return self.apply_contract(st, contract, fn, args, kwargs, fr)
        return self.inline_function(st, fn, args, kwargs, fr, defcls)

    def top_key_active(self):
        return getattr(self, 'top_key', None)

    def overriders(self, cname, fn):
        out = []
        for n in self.world.subclasses(cname):
            c, r = self.class_lookup(n, fn.__name__)
            if isinstance(r, staticmethod):
                r = r.__func__
            if isinstance(r, property):
                continue
            if r is not None and r is not fn and n != cname:
                # only count classes whose MRO resolves to a different function
                out.append(n)
        return out

    def bind_params(self, fs, fn, args, kwargs, st, fr_callee):
        """python calling convention -> dict name -> SV (defaults evaluated in the callee's module)"""
        a = fs.node.args
        names = [x.arg for x in a.args]
        env = {}
        if a.posonlyargs or a.kwonlyargs:
            raise OutOfReach('positional-only / keyword-only parameters')
        if len(args) > len(names):
            if a.vararg is None:
                return None, 'too many positional arguments'
            env[a.vararg.arg] = SV(None, Ty('pytuple'), tuple(args[len(names):]))
            args = args[:len(names)]
        elif a.vararg is not None:
            env[a.vararg.arg] = SV(None, Ty('pytuple'), ())
        for n, v in zip(names, args):
            env[n] = v
        extra = {}
        for k, v in kwargs.items():
            if k in env:
                return None, 'multiple values for argument %s' % k
            if k in names:
                env[k] = v
            else:
                extra[k] = v
        if extra:
            if a.kwarg is None:
                return None, 'unexpected keyword argument %s' % sorted(extra)[0]
        if a.kwarg is not None:
            env[a.kwarg.arg] = mk(PyDict(extra))
        ndef = len(a.defaults)
        for i, n in enumerate(names):
            if n not in env:
                j = i - (len(names) - ndef)
                if j < 0:
                    return None, 'missing argument %s' % n
                d = a.defaults[j]
                rs = list(self.ev(d, State(), fr_callee))
                if len(rs) != 1 or isinstance(rs[0][1], Raised):
                    raise OutOfReach('default value not constant')
                env[n] = rs[0][1]
        return env, None

    def frame_for(self, fs, fn, defcls=None):
        import importlib
        mod = importlib.import_module(fs.module)
        cls = defcls
        if cls is None and fs.cls_name:
            cls = getattr(mod, fs.cls_name, None)
        closure = {}
        return Frame(fs, mod, cls, closure)

    def inline_function(self, st, fn, args, kwargs, fr, defcls=None, closure=None):
        key = func_key(fn)
        fs = self.resolve_func(fn)
        if fs is None:
            raise OutOfReach('no source for %s' % key)
        if len(self.call_stack) >= self.MAX_INLINE:
            raise OutOfReach('inlining depth exceeded at %s' % key)
        if any(k == key for k, _ in self.call_stack):
            raise OutOfReach('recursive inlining of %s (needs a contract)' % key)
        frc = self.frame_for(fs, fn, defcls)
        if closure:
            frc.closure = closure
        elif fn.__closure__:
            # closures of nested functions: free variables are looked up in the defining frame's locals,
            # which the caller passes via `closure_env`
            frc.closure = dict(getattr(self, 'closure_env', {}))
        env, err = self.bind_params(fs, fn, args, kwargs, st, frc)
        if env is None:
            return [self.raise_(st, TypeError, err)]
        self.inlined.add(key)
        return self._inline(st, fs, frc, env, key)

    def _inline(self, st, fs, frc, env, key):
        saved = st.locals
        st1 = st.copy()
        st1.locals = env
        self.call_stack.append((key, env.get('self')))
        try:
            outs = list(self.exec_block(fs.body(), st1, frc))
        finally:
            self.call_stack.pop()
        for st2, out in outs:
            st3 = st2.copy()
            st3.locals = saved
            kind = out[0]
            if kind == 'return':
                yield st3, out[1]
            elif kind == 'raise':
                yield st3, Raised(out[1])
            elif kind == 'fall':
                yield st3, NONE_SV
            else:
                raise OutOfReach('break/continue escaping function')

    # -- classes ----------------------------------------------------------------------------------
    def call_class(self, st, cls, args, kwargs, fr):
        if issubclass(cls, BaseException):
            return [(st, mk(ExcVal(cls, args)))]
        import itertools as _it
        if cls in (list, tuple, set, frozenset, str, int, dict, bool, reversed, enumerate, range, _it.takewhile):
            return self.call_builtin(st, cls, args, kwargs, fr)
        name = cls.__name__
        if name == 'defaultdict' and cls.__module__ == 'collections':
            if len(args) == 1 and args[0].is_py and args[0].py is int and not kwargs:
                st1, a = self.alloc(st, 'dict')
                st1 = self.HS(st1, 'Dd', z3.Store(self.H(st1, 'Dd'), a, z3.K(StrS, z3.BoolVal(False))))
                st1 = self.HS(st1, 'Dv.I', z3.Store(self.H(st1, 'Dv.I'), a, z3.K(StrS, z3.IntVal(0))))
                st1.ghost['ddefault:%s' % a] = mk(0)
                return [(st1, SV(a, DictT(INT)))]
            raise OutOfReach('defaultdict with a factory other than int')
        ckey = '%s:%s' % (cls.__module__, cls.__qualname__)
        contract = self.world.contracts.get(ckey + '.__init__') or self.world.contracts.get(ckey)
        if contract is not None:
            return self.apply_ctor_contract(st, contract, cls, args, kwargs, fr)
        hook = self.world.specfuncs.get('new:' + name)
        if hook is not None:
            return hook(self, st, cls, args, kwargs, fr)
        init = cls.__dict__.get('__init__')
        if name in self.world.classes and isinstance(init, _types.FunctionType):
            # inline the constructor on a fresh object
            st, a = self.alloc(st, name)
            obj = SV(a, ObjT(name))
            return self._ctor_inline(st, init, obj, args, kwargs, fr, cls)
        raise OutOfReach('construction of %s' % name)

    def _ctor_inline(self, st, init, obj, args, kwargs, fr, cls):
        for st1, r in self.call_function(st, init, [obj] + args, kwargs, fr, defcls=cls):
            if isinstance(r, Raised):
                yield st1, r
            else:
                yield st1, obj

    def call_external(self, st, f, args, kwargs, fr):
        hook = self.world.specfuncs.get('ext:%s.%s' % (getattr(f, '__module__', ''), getattr(f, '__qualname__', repr(f))))
        if hook is None:
            hook = self.world.specfuncs.get('ext:' + getattr(f, '__qualname__', repr(f)))
        if hook is None and hasattr(f, '__self__'):
            hook = self.world.specfuncs.get('ext:%s.%s' % (type(f.__self__).__name__, f.__name__))
        if hook is not None:
            return hook(self, st, args, kwargs, fr)
        raise OutOfReach('external callable %r' % (f,))
