"""Per-property configuration: which ground passes and bounded drivers accompany the contract obligations
(the functions under contract are selected by the `properties=[...]` field of each contract)."""

PROPS = {}


def prop(pid, **kw):
    PROPS[pid] = kw


prop('C04', level='other', ground=[], bounded=[],
     explanation='contract obligations on the validator closures generated from the real AST and discharged by SMT',
     assumptions=[])
prop('C07', level='other', ground=[], bounded=[], explanation='', assumptions=[])
prop('C13', level='other', ground=[], bounded=[], explanation='', assumptions=[])
prop('C15', level='other', ground=[], bounded=[], explanation='', assumptions=[])
