"""Per-property configuration: which ground passes and bounded drivers accompany the contract obligations
(the functions under contract are selected by the `properties=[...]` field of each contract)."""

PROPS = {}


def prop(pid, **kw):
    kw.setdefault('ground', [])
    kw.setdefault('bounded', [])
    kw.setdefault('assumptions', [])
    kw.setdefault('level', 'other')
    PROPS[pid] = kw


prop('C04', bounded=['validation_d'],
     explanation='contract obligations on the validator closures, generated from the real AST and discharged by SMT')
prop('C07', ground=['astpass:c17_forwarding'], bounded=['delims'], explanation='contracts on check_encoding_chars, _split_msh, get_message_info, default resolvers')
prop('C09', bounded=['histories'], explanation='functional postconditions of the ElementList mutators against the ordered-list model')
prop('C10', bounded=['histories'], explanation='back-pointer and container-consistency postconditions of the attach path')
prop('C11', bounded=['histories'], explanation='frame clauses of the read paths and the traversal (temporary parent) path')
prop('C12', bounded=['histories'], explanation='exceptional postconditions (raises => view unchanged) of the mutators')
prop('C13', ground=['astpass:c19_ownership'], bounded=['datatypes'], also=['C05'], explanation='contracts on the format-selection helpers')
prop('C14', bounded=['names'], explanation='contracts on name resolution (find_child_reference interface, _find_name, child_at_index)')
prop('C15', bounded=['robust'], explanation='raises clauses: only declared exception classes escape the header functions')

prop('C01', ground=['tables:twf_segments', 'tables:twf_datatypes', 'astpass:c17_forwarding'], bounded=['roundtrip'],
     explanation='table preconditions of the round-trip lemma instantiated at every row (ground, exhaustive); decoder / '
                 'encoder contracts; end-to-end round trips through the real code as a bounded stand-in')
prop('C02', ground=['tables:twf_segments', 'tables:twf_datatypes', 'tables:constructible', 'tables:positions', 'tables:open_ended',
                    'astpass:c17_forwarding'],
     bounded=[],
     explanation='the position <-> name map is the table: every row checked (ground, exhaustive), every segment and '
                 'complex datatype instantiated, the position lemma executed on every well-formed row')

prop('C06', bounded=['textual'],
     explanation='class-alphabet enumeration of the real _escape_value (both variants, several delimiter sets) up to a length '
                 'bound; delimiter-safety, idempotence and tokenisation checked on every string')
prop('C03', ground=['astpass:c17_forwarding'], bounded=['roundtrip'], explanation='end-to-end: same segments, same order, same leaves (bounded round-trip driver)')

prop('C05', ground=['astpass:c17_forwarding'], bounded=['validation_d', 'histories', 'datatypes'], also=['C13'],
     explanation='STRICT admission checks of the attach path under contract (cardinality, level, version); STRICT-built '
                 'instances validated, STRICT / TOLERANT lockstep in the bounded drivers')
prop('C18', ground=['astpass:c17_forwarding'], bounded=['validation_d'],
     explanation='reference threading under contract (_parse_structure, get_structure, Element.__init__, create_element); '
                 'profile lookup / legacy detection / threading through group repetitions / validate() in the bounded driver')

prop('C08', ground=['tables:twf_groups', 'astpass:c19_ownership', 'astpass:c17_forwarding'], bounded=['names'],
     explanation='group finding on generated conforming instances (bounded); the recursive search is under contract')
prop('C16', bounded=['mllp_d'],
     explanation='framing contract of to_mllp, routing contract of _route_message; the real server on loopback for every '
                 'short splitting of the frame and concurrent clients (bounded). Interleavings are not explored.')
prop('C17', ground=['astpass:c17_forwarding'], bounded=['robust'],
     explanation='reads-clauses on the default resolvers (a default is consulted only when the argument is None) + '
                 'package-wide forwarding pass over the AST + call corpus under every default configuration (bounded)')
prop('C19', ground=['astpass:c19_ownership'], bounded=['robust'],
     # P: the frame obligations (and only those) of the functions under contract on the parse / build / encode /
     # validate / datatype paths: none of them writes a module-level variable or an object it was not handed
     frames_of=['C01', 'C03', 'C04', 'C06', 'C07', 'C08', 'C13', 'C14', 'C15', 'C16'],
     explanation='sufficient frame condition: no function reachable from parse/build/encode/validate writes a process-wide '
                 'object (ownership pass over the AST + digest of the process-wide objects around a call corpus + threads)')


TECHNIQUE = {
    'C01': 'ground table obligations (every row) + SMT-discharged contracts on encoder helpers + bounded round-trip driver',
    'C02': 'ground position lemma executed on every table row + contract-based deductive verification of both sides of the position <-> name map: Segment.add, _parse_structure, get_ordered_children, Segment._get_children / Element._get_children (encode: slot k is the by-name index of the k-th name, extra fields by number) and parse_fields / parse_components / parse_subcomponents (decode: the item from piece index+1 is named <prefix>_<index+1>, call-site obligations)',
    'C03': 'SMT-discharged contracts on _remove_trailing, ElementList.get_children (insertion-order view) and the recursive group search _get_segment_reference + forwarding pass over the AST + bounded round-trip driver',
    'C04': 'SMT-discharged contracts on the validator closures, the is_unknown and is_z_element definitions (pure, total), the Z-name predicates, _is_valid and the reporting tail of validate() + bounded instance/mutation driver',
    'C05': 'SMT-discharged admission contract (_can_add_child), datatype constructors and datatype_factory (ValueError only under STRICT, TOLERANT falls back to ST) + forwarding pass + bounded STRICT/TOLERANT drivers',
    'C06': 'SMT-discharged contracts pinning the translation table and escape pattern + class-alphabet enumeration of the real _escape_value (bounded)',
    'C07': 'SMT-discharged contracts on check_encoding_chars / _split_msh / get_message_info / default resolvers and the Element.encoding_chars getter (parent chain, else the default of the element own version) + bounded delimiter driver',
    'C08': 'contract-based deductive verification of the recursive group search _get_segment_reference (stack discipline, declared chain; loop invariants with loop frames; 60 SMT-discharged obligations) + ground check of the assumed table invariants at every structure node + AST passes + bounded group-finding driver',
    'C09': 'contract-based deductive verification of the ElementList mutators (about 1 100 SMT-discharged obligations from the real AST) + bounded history driver',
    'C10': 'contract-based deductive verification of the attach path (back-pointers, separation invariant) + bounded history driver',
    'C11': 'SMT-discharged frame clauses of the read / traversal paths + bounded history driver',
    'C12': 'SMT-discharged exceptional postconditions (raises => view unchanged, no half-attach) + bounded history driver',
    'C13': 'SMT-discharged contracts on format selection, offset splitting, the *_info helpers, the datatype constructors / to_er7 and datatype_factory + ownership pass + bounded lexical corpus against the HL7 definitions',
    'C14': 'SMT-discharged contracts on name resolution (_find_name, child_at_index, get, remove_by_name) and on the five find_child_reference definitions (upper-cased name, by-name map first, then by-long-name map) + bounded addressing driver',
    'C15': 'SMT-discharged raises clauses (no undeclared exception escapes the header functions) + bounded mutation corpus',
    'C16': 'contract-based deductive verification of to_mllp (framing), get_message_type (routing key), _route_message (the one reply comes from the handler registered for the message type, or the ERR handler) and handle() (at most one reply written, connection closed on every path) with the socket / handler objects modelled as external + real server on loopback (bounded); interleavings not explored',
    'C17': 'contract-based deductive verification of the default setters (each rebinds exactly one module-level variable, after the check; frame: no existing element written) and resolvers, Element.__init__ (813 obligations: explicit version / level / reference are the ones stored), get_structure, create_element, datatype_factory + package-wide forwarding pass over every call site + bounded configuration sweep',
    'C18': 'contract-based deductive verification of the reference-threading chain (_parse_structure, get_structure, Element.__init__, create_element: the reference handed in is the structure used; about 1 050 SMT-discharged obligations; the setattr copy loop of _find_structure and the dynamic constructor call assumed) + forwarding pass over the AST + bounded profile driver',
    'C19': 'SMT-discharged frame obligations of the functions under contract on the parse / build / encode / validate / datatype paths (no module-level variable rebound, nothing outside `modifies` written - the sufficient condition for thread independence) + ownership pass over every store / mutating call / global declaration + digest and thread corpus (bounded); schedules themselves are not explored by any layer',
}
for _p, _t in TECHNIQUE.items():
    PROPS[_p]['technique'] = _t
