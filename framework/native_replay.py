"""Replay of a refuted obligation's counter-model against the REAL code.

When a solver answers `sat`, its model assigns concrete values to the parameters of the function under contract.  For
functions whose parameters are plain values (str / int / bool / None, or dynamically typed parameters that the model fills
with such values) the model is turned into an actual call of the real function in /repo's working tree (run in a
subprocess under the interpreter of the baseline, /venv/bin/python):

  * obligation `raises.undeclared.<Exc>` / `raises.<Exc>.when` / `must_raise.<Exc>`: the call is a witness when it raises
    (does not raise) that exception;
  * obligation `post.<clause>`: the call's outcome is recorded (returned value or exception); it is reported as the witness
    input of the refuted clause only for the exception obligations above - a postcondition is not re-evaluated natively.

No witness (heap-shaped parameters, a model that does not reproduce, a solver that printed no model) leaves the violation as
it was: `no-failing-input-found`."""
import json
import os
import re
import subprocess

PY = '/venv/bin/python'


def _unescape(s):
    """SMT-LIB string literal body -> python str"""
    s = s.replace('""', '"')
    s = re.sub(r'\\u\{([0-9a-fA-F]+)\}', lambda m: chr(int(m.group(1), 16)), s)
    s = re.sub(r'\\u([0-9a-fA-F]{4})', lambda m: chr(int(m.group(1), 16)), s)
    s = re.sub(r'\\x([0-9a-fA-F]{2})', lambda m: chr(int(m.group(1), 16)), s)
    return s


def _sexprs(text):
    """minimal s-expression reader: nested python lists of atoms; string literals keep their quotes"""
    toks = re.findall(r'"(?:[^"]|"")*"|\|[^|]*\||[()]|[^\s()"|]+', text, re.S)
    stack = [[]]
    for t in toks:
        if t == '(':
            stack.append([])
        elif t == ')':
            if len(stack) == 1:
                continue
            top = stack.pop()
            stack[-1].append(top)
        else:
            stack[-1].append(t)
    return stack[0]


def _value(node):
    """python value of a model term (the supported shapes), or raise ValueError"""
    if isinstance(node, str):
        if node.startswith('"'):
            return _unescape(node[1:-1])
        if re.match(r'^-?\d+$', node):
            return int(node)
        if node in ('true', 'false'):
            return node == 'true'
        raise ValueError(node)
    if len(node) == 2 and node[0] == '-':
        return -_value(node[1])
    if len(node) == 2 and node[0] in ('VStr', 'VInt', 'VBool'):
        return _value(node[1])
    if len(node) == 2 and node[0] == 'VRef':
        if _value(node[1]) == 0:
            return None
        raise ValueError('reference')
    raise ValueError('unsupported model value %r' % (node,))


def model_params(model_text):
    """{parameter name: (sort, python value)} for the `p.<name>` constants of a (get-model) answer"""
    out = {}

    def walk(n):
        if isinstance(n, list):
            if len(n) == 5 and n[0] == 'define-fun' and isinstance(n[1], str) and n[2] == []:
                name = n[1].strip('|')
                if name.startswith('p.'):
                    try:
                        out[name[2:]] = (n[3] if isinstance(n[3], str) else 'composite', _value(n[4]))
                    except ValueError:
                        pass
                return
            for c in n:
                walk(c)
    walk(_sexprs(model_text or ''))
    return out


SIMPLE = ('str', 'str?', 'int', 'int?', 'bool', 'any')


def replay(contract, obligation, model_text, repo):
    """returns None or {'call': str, 'outcome': str, 'confirms': bool, 'code': str}"""
    key = contract.key
    if '[' in key or '<locals>' in key:
        return None
    mod, qual = key.split(':')
    sig = contract.sig
    if not sig or any(t not in SIMPLE for t in sig.values()):
        return None
    params = model_params(model_text or '')
    args = {}
    for n, t in sig.items():
        if n not in params:
            if t.endswith('?') or t == 'any':
                args[n] = None          # the model left it unconstrained / None is VRef 0 folded away
                continue
            return None
        sort, v = params[n]
        if t in ('str', 'str?') and not (isinstance(v, str) or v is None):
            # an optional string is a reference-sorted Val in some signatures; only plain shapes are replayed
            return None
        args[n] = v
    call = '%s(%s)' % (qual, ', '.join('%s=%r' % kv for kv in args.items()))
    code = ('import sys, json\nsys.path.insert(0, %r)\nimport importlib\nm = importlib.import_module(%r)\nf = m\n'
            'for p in %r.split("."):\n    f = getattr(f, p)\n'
            'try:\n    r = f(**%r)\n    print(json.dumps({"kind": "return", "value": repr(r)[:300]}))\n'
            'except BaseException as e:\n    print(json.dumps({"kind": "raise", "cls": type(e).__name__, "mro": [c.__name__ for c in type(e).__mro__], "text": str(e)[:200]}))\n'
            % (repo, mod, qual, args))
    try:
        p = subprocess.run([PY, '-c', code], capture_output=True, text=True, timeout=60,
                           env=dict(os.environ, PYTHONPATH=repo))
        out = json.loads(p.stdout.strip().splitlines()[-1])
    except Exception as e:   # noqa
        return {'call': call, 'outcome': 'replay failed: %s' % e, 'confirms': False, 'code': code}
    m = re.search(r'#(raises\.undeclared|must_raise|raises)\.([A-Za-z_]+)', obligation)
    confirms = False
    if m:
        kind, exc = m.group(1), m.group(2)
        raised = out['kind'] == 'raise' and exc in out.get('mro', [])
        if kind == 'raises.undeclared':
            confirms = raised
        elif kind == 'must_raise':
            confirms = not raised
        else:               # raises.<Exc>.when : it raised although the `when` condition is false for this input
            confirms = raised
    outcome = ('raises %s: %s' % (out['cls'], out['text'])) if out['kind'] == 'raise' else ('returns %s' % out['value'])
    return {'call': call, 'outcome': outcome, 'confirms': confirms, 'code': code}
