"""Re-run one recorded violation."""
import json
import os
import subprocess
import sys

HERE = os.path.dirname(os.path.dirname(os.path.abspath(__file__)))


def run(pid, path):
    with open(path) as f:
        r = json.load(f)
    print(json.dumps({k: v for k, v in r.items() if k not in ('solver_output',)}, indent=1)[:4000])
    if r.get('kind') == 'refuted-obligation' and (r.get('native_replay') or {}).get('code'):
        # the counter-model as a call of the real function
        env = dict(os.environ)
        env['PYTHONPATH'] = os.environ.get('HL7APY_REPO', '/repo')
        code = r['native_replay']['code'].replace(r['native_replay'].get('repo', '\x00'), env['PYTHONPATH'])
        p = subprocess.run(['/venv/bin/python', '-c', code], env=env, capture_output=True, text=True)
        print('native replay of the counter-model: %s -> %s' % (r['native_replay'].get('call'), p.stdout.strip()[-300:]))
    if r.get('kind') in ('refuted-obligation', 'failed-obligation'):
        sys.path.insert(0, HERE)
        from contracts import build_world
        from pyvc.spec import Verifier
        from pyvc import smt
        from framework.report import base_name
        w = build_world()
        v = Verifier(w)
        res = v.verify(r['function'])
        ax = v.global_axioms()
        bad = 0
        for vc in res.vcs:
            if base_name(vc.name) == r['id']:
                s = smt.discharge(smt.vc_to_smt2(vc, ax, produce_models=True), timeout=30)
                print(vc.name, s['status'], s['solver'])
                if s['status'] != 'unsat':
                    bad += 1
        return 1 if bad else 0
    if r.get('kind') == 'bounded':
        f = r['failure']
        if f.get('replay_code'):
            env = dict(os.environ)
            env['PYTHONPATH'] = os.environ.get('HL7APY_REPO', '/repo')
            p = subprocess.run(['/venv/bin/python', '-c', f['replay_code']], env=env, cwd=os.environ.get('HL7APY_REPO', '/repo'))
            return 1 if p.returncode else 0
    if r.get('kind') == 'ground':
        print('ground obligation: re-run the check; the failing row is its own replay')
    return 1
