"""Sidecar contracts for crs4/hl7apy (the repository files are not edited).

`build_world()` imports the real classes from the working tree (reflection only: MRO, class attributes,
property objects) and registers the field schema, the spec vocabulary and every contract module."""
import importlib
import os
import sys

from pyvc.engine import World
from pyvc.spec import Contract
from pyvc.tys import parse_type

REGISTRY = []          # list of Contract
SPECFUNCS = {}         # name -> callable(ex, st, *args)
AXIOMS = []            # callables(ex) -> [z3 axioms]
SCHEMA = {}            # attr or Class.attr -> type string
GLOBALS = {}           # 'module:NAME' -> type string
PROPERTY_FUNCS = {}    # property id -> list of contract keys
ASSUMED_FUNCS = {}     # property id -> contracts assumed, not verified


THOROUGH_ONLY = set()   # contract keys verified in the thorough tier only (VC generation takes minutes)


def contract(key, **kw):
    props = kw.get('properties', ())
    if kw.pop('thorough_only', False):
        THOROUGH_ONLY.add(key)
    c = Contract(key, **kw)
    REGISTRY.append(c)
    for p in props:
        if c.verify:
            PROPERTY_FUNCS.setdefault(p, []).append(key)
        else:
            ASSUMED_FUNCS.setdefault(p, []).append(key)
    return c


def specfunc(name):
    def deco(f):
        SPECFUNCS[name] = f
        return f
    return deco


def axioms(f):
    AXIOMS.append(f)
    return f


CONTRACT_MODULES = ['contracts.schema', 'contracts.vocab', 'contracts.k1_helpers', 'contracts.k8_validator',
                    'contracts.k9_utils', 'contracts.k6_header', 'contracts.k6_parsers', 'contracts.k2_elementlist', 'contracts.k3_element', 'contracts.k4_structure', 'contracts.k6_groups', 'contracts.k5_encoders', 'contracts.k9_datatypes', 'contracts.k9_factories', 'contracts.k10_mllp']


def build_world(modules=None):
    repo = os.environ.get('HL7APY_REPO', '/repo')
    if repo not in sys.path:
        sys.path.insert(0, repo)
    del REGISTRY[:]
    SPECFUNCS.clear()
    del AXIOMS[:]
    SCHEMA.clear()
    GLOBALS.clear()
    PROPERTY_FUNCS.clear()
    THOROUGH_ONLY.clear()
    ASSUMED_FUNCS.clear()
    for m in (modules or CONTRACT_MODULES):
        if m in sys.modules:
            importlib.reload(sys.modules[m])
        else:
            importlib.import_module(m)
    w = World()
    import hl7apy.core as core
    import hl7apy.exceptions as exc
    import hl7apy.base_datatypes as bdt
    import hl7apy.validation as val
    import hl7apy.mllp as mllp
    for cls in (core.ElementProxy, core.ElementList, core.ElementFinder, core.Element, core.SupportComplexDataType,
                core.CanBeVaries, core.SubComponent, core.Component, core.Field, core.Segment, core.Group,
                core.Message, val.Validator, mllp.MLLPRequestHandler, mllp.MLLPServer):
        w.add_class(cls)
    for n in dir(bdt):
        o = getattr(bdt, n)
        if isinstance(o, type) and issubclass(o, bdt.BaseDataType):
            w.add_class(o)
    for n in dir(exc):
        o = getattr(exc, n)
        if isinstance(o, type) and issubclass(o, BaseException):
            w.add_class(o)
    class DynamicException(Exception):
        """pseudo-class of `raise <dynamically typed value>` (see pyvc/stmt.py: st_Raise)"""
    for o in (DynamicException, mllp.UnsupportedMessageType, mllp.InvalidHL7Message, Exception, ValueError, KeyError, IndexError,
              TypeError, AttributeError, AssertionError, NotImplementedError, UnicodeDecodeError):
        w.add_class(o)
    for k, t in SCHEMA.items():
        w.schema[k] = parse_type(t)
    for k, t in GLOBALS.items():
        w.globals_schema[k] = parse_type(t)
    for c in REGISTRY:
        if c.key in w.contracts:
            raise ValueError('duplicate contract %s' % c.key)
        w.contracts[c.key] = c
    w.specfuncs.update(SPECFUNCS)
    w.axioms.extend(AXIOMS)
    w.tuple_records = {'RefStruct': ['kind', 'children', 'datatype', 'longname', 'table', 'maxlen'],
                       'ChildEntry': ['name', 'ref', 'card', 'kind']}
    # data invariant of the structure tables (checked entry by entry by the ground pass tables:twf_groups): a GRP child
    # entry carries its group's reference, a tuple of at least two items (kind, children)
    def childentry_inv(ex, st, term):
        import z3
        kind = ex.H(st, w.field_key('ChildEntry', 'kind'))[term]
        ref = ex.H(st, w.field_key('ChildEntry', 'ref'))[term]
        ln = ex.H(st, w.field_key('RefStruct', '_len'))
        return [z3.Implies(kind == z3.StringVal('GRP'), z3.And(ref > 0, ln[ref] >= 2))]
    w.class_invariants = {'ChildEntry': childentry_inv}
    w.thorough_only = set(THOROUGH_ONLY)
    w.property_funcs = dict(PROPERTY_FUNCS)
    w.assumed_funcs = dict(ASSUMED_FUNCS)
    from pyvc import regex
    regex.install(w)
    return w
