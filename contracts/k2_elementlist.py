"""K2 - ElementList / ElementProxy: the child container (C09 functional postconditions against the ordered-list
model, C10 back-pointers, C11 read frames, C12 exceptional postconditions)."""
from contracts import contract

N = 'child.name'


def removed_first_of(lst_now, lst_old, who):
    """clause: the reference list `lst_now` (current state) equals `lst_old` (an old(...) expression denoting the
    same list object in the pre-state) with the FIRST occurrence of `who` removed; unchanged if `who` is absent"""
    fp = 'old(first_pos(%s, %s))' % (lst_old[4:-1] if lst_old.startswith('old(') else lst_old, who)
    return ('(({fp} == -1 and list_len({now}) == old(list_len({old})) and '
            'all(list_at({now}, k) is old(list_at({old}, k)) for k in range(old(list_len({old}))))) or '
            '({fp} >= 0 and list_len({now}) == old(list_len({old})) - 1 and '
            'all(list_at({now}, k) is old(list_at({old}, k)) for k in range({fp})) and '
            'all(list_at({now}, k) is old(list_at({old}, k + 1)) for k in range({fp}, old(list_len({old})) - 1))))'
            .format(fp=fp, now=lst_now, old=(lst_old[4:-1] if lst_old.startswith('old(') else lst_old)))


def removed_first(item, length, who):
    raise RuntimeError('use removed_first_of')


def idx_item(i):
    return 'idx_item(self, child.name, %s)' % i


def tidx_item(i):
    return 'tidx_item(self, child.name, %s)' % i


def list_item(i):
    return 'self.list[%s]' % i


contract(
    'hl7apy.core:ElementList._remove_from_index',
    sig={'self': 'ElementList', 'child': 'Element'},
    returns='none',
    ensures=[
        ('byname_minus_child', removed_first_of('old(idx_list(self, child.name))', 'old(idx_list(self, child.name))', 'child')),
        ('keys_unchanged', 'idx_has(self, child.name) == old(idx_has(self, child.name)) and '
                           'idx_list(self, child.name) is old(idx_list(self, child.name))'),
    ],
    raises={},
    raises_only=[],
    modifies=['idx_list(self, child.name)[]'],
    allocates=False,
    properties=['C09', 'C10', 'C12'],
)

TL = 'old(tidx_list(self, child.name))'

contract(
    'hl7apy.core:ElementList._remove_from_traversal_index',
    sig={'self': 'ElementList', 'child': 'Element'},
    returns='none',
    ensures=[
        # the traversal list of that name loses the first occurrence of child; an emptied list loses its key
        ('tlist_minus_child',
         'implies(old(tidx_has(self, child.name)), ' + removed_first_of(TL, TL, 'child') + ')'),
        ('key_kept_if_nonempty',
         'implies(old(tidx_has(self, child.name)) and list_len_of(%s) > 0, '
         'tidx_has(self, child.name) and tidx_list(self, child.name) is %s)' % (TL, TL)),
        ('key_dropped_when_emptied',
         'implies(old(tidx_has(self, child.name)) and old(tidx_len(self, child.name)) > 0 and list_len_of(%s) == 0, '
         'not tidx_has(self, child.name))' % TL),
        ('absent_noop', 'implies(not old(tidx_has(self, child.name)), not tidx_has(self, child.name))'),
        ('same_object', 'implies(tidx_has(self, child.name), old(tidx_has(self, child.name)) and '
                        'tidx_list(self, child.name) is %s)' % TL),
        ('other_names', 'dict_same_except(self.traversal_indexes, child.name)'),
    ],
    raises={},
    raises_only=[],
    modifies=['tidx_list(self, child.name)[]', 'self.traversal_indexes{}'],
    allocates=False,
    properties=['C09', 'C10', 'C11', 'C12'],
)

# ---- abstract Element interface used by the container (K3); every override is verified against it separately
contract(
    'hl7apy.core:Element.find_child_reference',
    sig={'self': 'Element', 'name': 'str'},
    returns='dict[any]?',
    interface=True, verify=False,
    ensures=[
        ('canonical_name', 'implies(result is not None, dhas(result, "name") and dget(result, "name") == canon(self, upper(name)))'),
        ('none_iff', 'implies(result is None, canon(self, upper(name)) is None)'),
        ('has_ref', 'implies(result is not None, dhas(result, "ref") and dhas(result, "cls"))'),
    ],
    raises={'ChildNotFound': {}, 'ChildNotValid': {}},
    modifies=[],
    allocates=['Dd', 'Dv.V', 'La.V', 'Ll'],
    properties=['C14'],
    notes='interface contract: assumed at call sites on a statically typed Element; proved for the overrides in k3_element.py',
)

contract(
    'hl7apy.core:ElementList._find_name',
    sig={'self': 'ElementList', 'name': 'str'},
    returns='str?',
    ensures=[('canonical', 'result == canon(self.element, upper(name))')],
    raises={'ChildNotFound': {}, 'ChildNotValid': {}},
    modifies=[],
    properties=['C14', 'C09'],
)

contract(
    'hl7apy.core:ElementList.child_at_index',
    sig={'self': 'ElementList', 'name': 'str?', 'index': 'int'},
    returns='Element?',
    ensures=[
        ('raw_name', 'implies(name is None or canon(self.element, upper(name)) == name, result is finder(self, name, index))'),
        ('canonical_name', 'implies(name is not None and canon(self.element, upper(name)) != name, '
                           'result is finder(self, canon(self.element, upper(name)), index))'),
    ],
    raises={'ChildNotFound': {}, 'ChildNotValid': {}},
    modifies=[],
    properties=['C09', 'C14'],
)

contract(
    'hl7apy.core:ElementList.child_at_index.<locals>._finder',
    sig={'n': 'str?', 'i': 'int'},
    closure={'self': 'ElementList'},
    returns='Element?',
    ensures=[('lookup', 'result is finder(self, n, i)')],
    raises={},
    raises_only=[],
    modifies=[],
    allocates=False,
    properties=['C09', 'C14'],
)

E = 'self.element'
NOT_IN_LIST = 'all(self.list[k] is not child for k in range(len(self.list)))'

contract(
    'hl7apy.core:ElementList.remove',
    sig={'self': 'ElementList', 'child': 'Element'},
    returns='none',
    requires=['sep(self)'],
    ensures=[
        ('sep', 'sep(self)'),
        ('traversal_child',
         'implies(old(child._traversal_parent) is self.element, '
         'list_unchanged(self.list) and dict_unchanged(self.indexes) and '
         'implies(old(tidx_has(self, child.name)), ' + removed_first_of(TL, TL, 'child') + '))'),
        ('real_child_list',
         'implies(old(child._traversal_parent) is not self.element, ' +
         removed_first_of('self.list', 'self.list', 'child') + ')'),
        ('real_child_byname',
         'implies(old(child._traversal_parent) is not self.element, ' +
         removed_first_of('old(idx_list(self, child.name))', 'old(idx_list(self, child.name))', 'child') + ')'),
        ('real_child_rest',
         'implies(old(child._traversal_parent) is not self.element, dict_unchanged(self.indexes) and '
         'dict_unchanged(self.traversal_indexes))'),
        ('was_listed', 'implies(old(child._traversal_parent) is not self.element, '
                       'any(old(self.list[k]) is child for k in range(old(len(self.list)))))'),
    ],
    raises={'ValueError': {'when': 'child._traversal_parent is not self.element and ' + NOT_IN_LIST,
                           'must': 'child._traversal_parent is not self.element and ' + NOT_IN_LIST,
                           'ensures': [('list_kept', 'list_unchanged(self.list)')]}},
    raises_only=['ValueError'],
    modifies=['self.list[]', 'idx_list(self, child.name)[]', 'tidx_list(self, child.name)[]', 'self.traversal_indexes{}'],
    allocates=False,
    properties=['C09', 'C10', 'C12'],
)

contract('hl7apy.core:ElementList.__len__', sig={'self': 'ElementList'}, returns='int',
         ensures=[('len', 'result == len(self.list)')], raises={}, raises_only=[], modifies=[], allocates=False,
         properties=['C10', 'C11'])

contract('hl7apy.core:ElementList.__getitem__', sig={'self': 'ElementList', 'index': 'int'}, returns='Element',
         ensures=[('item', 'result is self.list[index if index >= 0 else index + len(self.list)]'),
                  ('in_range', '-len(self.list) <= index and index < len(self.list)')],
         raises={'IndexError': {'when': 'index >= len(self.list) or index < -len(self.list)',
                                'must': 'index >= len(self.list) or index < -len(self.list)'}},
         raises_only=['IndexError'], modifies=[], allocates=False, properties=['C10', 'C11'])

contract(
    'hl7apy.core:ElementList.__delitem__',
    sig={'self': 'ElementList', 'index': 'int'},
    returns='none',
    requires=['sep(self)'],
    ensures=[
        ('sep', 'sep(self)'),
        ('list_minus_index',
         'len(self.list) == old(len(self.list)) - 1 and '
         'all(self.list[k] is old(self.list[k]) for k in range(index if index >= 0 else index + old(len(self.list)))) and '
         'all(self.list[k] is old(self.list[k + 1]) for k in range(index if index >= 0 else index + old(len(self.list)), len(self.list)))'),
        ('byname_minus_that_child',
         removed_first_of('old(idx_list(self, victim.name))', 'old(idx_list(self, victim.name))', 'victim')
         .replace('victim', 'old(self.list[index if index >= 0 else index + len(self.list)])')),
    ],
    raises={'IndexError': {'when': 'index >= len(self.list) or index < -len(self.list)',
                           'must': 'index >= len(self.list) or index < -len(self.list)',
                           'ensures': [('unchanged', 'list_unchanged(self.list) and dict_unchanged(self.indexes)')]}},
    raises_only=['IndexError'],
    modifies=['self.list[]', 'idx_list(self, self.list[index if index >= 0 else index + len(self.list)].name)[]'],
    allocates=False,
    properties=['C09', 'C10', 'C12'],
)


# ---------------------------------------------------------------------------------------------------
# The attach path.  S = expression of the ElementList, C = expression of the child.
def appended(seq_item, seq_len, what):
    """clause: sequence == old sequence ++ [what]"""
    return ('{ln} == old({ln}) + 1 and {last} is {what} and all({item_k} is old({item_k}) for k in range(old({ln})))'
            .format(ln=seq_len, last=seq_item('old(%s)' % seq_len), item_k=seq_item('k'), what=what))


def real_attach(S, C):
    """effects of attaching C as a real child at the end of S (append, entry state (a) or (c))"""
    return [
        ('list_appended', appended(lambda i: '%s.list[%s]' % (S, i), 'len(%s.list)' % S, C)),
        ('byname_appended', 'idx_has({S}, {C}.name) and '.format(S=S, C=C) +
         appended(lambda i: 'idx_item(%s, %s.name, %s)' % (S, C, i), 'idx_len(%s, %s.name)' % (S, C), C)),
        ('other_names_kept', 'dict_same_except(%s.indexes, %s.name)' % (S, C)),
        ('byname_object_kept', 'implies(old(idx_has({S}, {C}.name)), idx_list({S}, {C}.name) is old(idx_list({S}, {C}.name)))'
         .format(S=S, C=C)),
        ('byname_object_fresh', 'implies(not old(idx_has({S}, {C}.name)), is_fresh(idx_list({S}, {C}.name)))'
         .format(S=S, C=C)),
        ('left_traversal_index',
         'implies(old(tidx_has({S}, {C}.name)), '.format(S=S, C=C) + removed_first_of(
             'old(tidx_list(%s, %s.name))' % (S, C), 'old(tidx_list(%s, %s.name))' % (S, C), C) + ')'),
        ('traversal_key', 'implies(tidx_has({S}, {C}.name), old(tidx_has({S}, {C}.name)) and '
                          'tidx_list({S}, {C}.name) is old(tidx_list({S}, {C}.name)))'.format(S=S, C=C)),
        ('other_traversal_kept', 'dict_same_except(%s.traversal_indexes, %s.name)' % (S, C)),
        ('segment_last_index', 'seg_last_ok(%s.element, %s)' % (S, C)),
        ('sep', 'sep(%s)' % S),
    ]


def guard(cond, clauses, prefix):
    return [('%s.%s' % (prefix, n), 'implies(%s, %s)' % (cond, c)) for n, c in clauses]


ST_A = 'old(child._parent) is self.element'
ST_B = 'old(child._parent) is not self.element and old(child._traversal_parent) is self.element'
ST_C = 'old(child._parent) is not self.element and old(child._traversal_parent) is not self.element'

UNCHANGED_VIEW = ('list_unchanged(self.list) and dict_unchanged(self.indexes) and '
                  'idx_len(self, child.name) == old(idx_len(self, child.name)) and '
                  'implies(old(idx_has(self, child.name)), list_unchanged(old(idx_list(self, child.name))))')
UNCHANGED_TRAVERSAL = ('dict_unchanged(self.traversal_indexes) and '
                       'implies(old(tidx_has(self, child.name)), list_unchanged(old(tidx_list(self, child.name))))')

ATTACH_MODIFIES = ['self.list[]', 'self.indexes{}', 'idx_list(self, child.name)[]', 'self.traversal_indexes{}',
                   'tidx_list(self, child.name)[]', 'child._parent', 'child._traversal_parent',
                   'field Segment._last_child_index']

ATTACH_RAISES = {
    # C12: a rejected attach leaves the target's view unchanged; `no_half_attach` is the parent pointer of the child
    n: {'ensures': [('view_unchanged', UNCHANGED_VIEW),
                    ('no_half_attach', 'child._parent is old(child._parent)')],
        'modifies': ['child._parent', 'child._traversal_parent']}
    for n in ('ChildNotValid', 'ChildNotFound', 'MaxChildLimitReached', 'OperationNotAllowed')
}

# interface: admissibility of a child for its parent class (K3 proves the overrides)
contract(
    'hl7apy.core:Element._is_valid_child',
    sig={'self': 'Element', 'child': 'Element'},
    returns='bool',
    interface=True, verify=False,
    ensures=[],
    raises={'ChildNotFound': {}, 'ChildNotValid': {}},
    modifies=[],
    allocates=False,
    properties=['C05'],
    notes='interface contract (pure): assumed where the container calls it',
)

CARD_OK = ('implies(is_strict(self.element.validation_level) and dhas(self.element.repetitions, child.name) and '
           'dget(self.element.repetitions, child.name)[1] > -1, '
           'old(idx_len(self, child.name)) + 1 <= dget(self.element.repetitions, child.name)[1])')

contract(
    'hl7apy.core:ElementList._can_add_child',
    sig={'self': 'ElementList', 'child': 'Element'},
    returns='bool',
    requires=['sep(self)', 'self.element.children is self'],
    ensures=[
        ('true_iff_already_linked', 'result == (old(child._parent) is self.element or old(child._traversal_parent) is self.element)'),
        # state (a)/(b): checks only, nothing written
        ('linked.same_level', 'implies(result, child.validation_level == self.element.validation_level)'),
        ('linked.same_version', 'implies(result, child.version == self.element.version)'),
        ('linked.cardinality', 'implies(result, %s)' % CARD_OK),
        ('linked.nothing_written', 'implies(result, %s and %s and '
                                   'child._parent is old(child._parent) and '
                                   'child._traversal_parent is old(child._traversal_parent))'
         % (UNCHANGED_VIEW, UNCHANGED_TRAVERSAL)),
        ('segment_last_index', 'seg_last_ok(self.element, child)'),
    ] + guard('not result', real_attach('self', 'child'), 'fresh') + [
        ('fresh.parent_set', 'implies(not result, child._parent is self.element and child._traversal_parent is None)'),
        ('sep', 'sep(self)'),
    ],
    raises=ATTACH_RAISES,
    modifies=ATTACH_MODIFIES,
    allocates=['La.R', 'Ll'],
    properties=['C05', 'C09', 'C10', 'C12'],
)

OWNED = 'self.element.children is self'

TRAV_APPENDED = ('tidx_has(self, child.name) and ' +
                 appended(lambda i: 'tidx_item(self, child.name, %s)' % i, 'tidx_len(self, child.name)', 'child') +
                 ' and dict_same_except(self.traversal_indexes, child.name) and %s' % UNCHANGED_VIEW)

contract(
    'hl7apy.core:ElementList.append',
    sig={'self': 'ElementList', 'child': 'Element'},
    returns='none',
    requires=['sep(self)', OWNED],
    ensures=(
        guard('(%s) or (%s)' % (ST_A, ST_C), real_attach('self', 'child'), 'real') +
        [('real.links', 'implies((%s) or (%s), child._parent is self.element)' % (ST_A, ST_C)),
         ('fresh.traversal_cleared', 'implies(%s, child._traversal_parent is None)' % ST_C),
         ('linked.links_kept', 'implies(%s, child._traversal_parent is old(child._traversal_parent))' % ST_A),
         # read path (C11): a child whose temporary parent is this element only enters the traversal index
         ('traversal.only_traversal_index', 'implies(%s, %s)' % (ST_B, TRAV_APPENDED)),
         ('traversal.links_kept', 'implies(%s, child._parent is old(child._parent) and '
                                  'child._traversal_parent is self.element)' % ST_B),
         ('segment_last_index', 'seg_last_ok(self.element, child)'),
         ('sep', 'sep(self)')]),
    raises=ATTACH_RAISES,
    modifies=ATTACH_MODIFIES,
    allocates=['La.R', 'Ll'],
    properties=['C09', 'C10', 'C11', 'C12'],
)


def inserted(seq_item, seq_len, pos, what):
    """clause: sequence == old[:pos] ++ [what] ++ old[pos:]   (new side indexed by the bound variable itself:
    quantifier triggers then match plain selects)"""
    return ('{ln} == old({ln}) + 1 and {at} is {what} and '
            'all({item_k} is old({item_k}) for k in range({pos})) and '
            'all({item_k} is old({item_km1}) for k in range({pos} + 1, old({ln}) + 1))'
            .format(ln=seq_len, at=seq_item(pos), item_k=seq_item('k'), item_km1=seq_item('k - 1'), pos=pos, what=what))


# C09: insert puts the child at `index` of the child list and at `by_name_index` of its by-name list (end for -1)
INS_POS = '(index if index >= 0 else index + old(len(self.list)))'
INS_BN = '(old(idx_len(self, child.name)) if by_name_index == -1 else by_name_index)'
contract(
    'hl7apy.core:ElementList.insert',
    sig={'self': 'ElementList', 'index': 'int', 'child': 'Element', 'by_name_index': 'int'},
    returns='none',
    requires=['sep(self)', OWNED, '0 <= index and index <= len(self.list)',
              'by_name_index == -1 or (0 <= by_name_index and by_name_index <= idx_len(self, child.name))',
              # call-site precondition: the child is not a temporary (traversal) child of this element
              'child._parent is self.element or child._traversal_parent is not self.element',
              # ... and is not listed already (C10: no child is listed twice)
              NOT_IN_LIST,
              'all(idx_item(self, child.name, k) is not child for k in range(idx_len(self, child.name)))'],
    ensures=[
        ('list_position', inserted(list_item, 'len(self.list)', 'index', 'child')),
        ('byname_position', 'idx_has(self, child.name) and ' +
         inserted(idx_item, 'idx_len(self, child.name)', INS_BN, 'child')),
        ('other_names_kept', 'dict_same_except(self.indexes, child.name)'),
        ('byname_object_kept', 'implies(old(idx_has(self, child.name)), idx_list(self, child.name) is old(idx_list(self, child.name)))'),
        ('byname_object_fresh', 'implies(not old(idx_has(self, child.name)), is_fresh(idx_list(self, child.name)))'),
        ('linked', 'child._parent is self.element'),
        ('segment_last_index', 'seg_last_ok(self.element, child)'),
        ('sep', 'sep(self)'),
    ],
    raises=ATTACH_RAISES,
    modifies=ATTACH_MODIFIES,
    allocates=['La.R', 'Ll'],
    properties=['C09', 'C10', 'C12'],
)


def replaced_first_of(lst, old, new):
    """clause: the reference list `lst` (same object before and after) has the same length; the FIRST occurrence of
    `old` is now `new`; every other position is unchanged"""
    fp = 'old(first_pos(%s, %s))' % (lst, old)
    return ('{fp} >= 0 and list_len({l}) == old(list_len({l})) and list_at({l}, {fp}) is {new} and '
            'all(list_at({l}, k) is old(list_at({l}, k)) for k in range({fp})) and '
            'all(list_at({l}, k) is old(list_at({l}, k)) for k in range({fp} + 1, list_len({l})))'
            .format(fp=fp, l=lst, new=new))


OLD_LISTED = ('any(self.list[k] is old_child for k in range(len(self.list))) and '
              'any(idx_item(self, old_child.name, k) is old_child for k in range(idx_len(self, old_child.name)))')
NEW_NOT_LISTED = ('all(self.list[k] is not new_child for k in range(len(self.list))) and '
                  'all(idx_item(self, new_child.name, k) is not new_child for k in range(idx_len(self, new_child.name)))')

REPLACE_RAISES = {
    n: {'ensures': [('view_unchanged',
                     'list_unchanged(self.list) and dict_unchanged(self.indexes) and '
                     'implies(old(idx_has(self, old_child.name)), list_unchanged(old(idx_list(self, old_child.name))))')]}
    for n in ('ChildNotValid', 'ChildNotFound', 'MaxChildLimitReached', 'OperationNotAllowed')
}

REAL_OLD = 'old(old_child._traversal_parent) is not self.element'
TRAV_OLD = 'old(old_child._traversal_parent) is self.element'

contract(
    'hl7apy.core:ElementList.replace_child',
    sig={'self': 'ElementList', 'old_child': 'Element', 'new_child': 'Element'},
    returns='none',
    requires=['sep(self)', OWNED, 'old_child is not new_child', 'new_child.name == old_child.name',
              # scope of this contract: the replaced child is a real child (superseding a temporary traversal child
              # goes through remove + append, each under its own contract; the composition is in the bounded tier)
              'old_child._traversal_parent is not self.element', OLD_LISTED, NEW_NOT_LISTED,
              'new_child._parent is self.element or new_child._traversal_parent is not self.element'],
    ensures=[
        # C09: replacing a child never changes the order of repetitions or of its siblings
        ('list_in_place', 'implies(%s, %s)' % (REAL_OLD, replaced_first_of('self.list', 'old_child', 'new_child'))),
        ('byname_in_place', 'implies(%s, idx_list(self, old_child.name) is old(idx_list(self, old_child.name)) and ' % REAL_OLD +
         replaced_first_of('old(idx_list(self, old_child.name))', 'old_child', 'new_child')
         .replace('old(first_pos(old(idx_list(self, old_child.name)), old_child))',
                  'old(first_pos(idx_list(self, old_child.name), old_child))')
         .replace('old(list_len(old(idx_list(self, old_child.name))))', 'old(idx_len(self, old_child.name))')
         .replace('old(list_at(old(idx_list(self, old_child.name)), k))', 'old(idx_item(self, old_child.name, k))') + ')'),
        # a temporary (traversal) child is simply superseded: the new child is appended
        ('traversal_superseded', 'implies(%s, %s)' % (TRAV_OLD, appended(list_item, 'len(self.list)', 'new_child'))),
        ('other_names_kept', 'dict_same_except(self.indexes, old_child.name)'),
        ('linked', 'new_child._parent is self.element'),
        ('sep', 'sep(self)'),
    ],
    raises=REPLACE_RAISES,
    modifies=['self.list[]', 'self.indexes{}', 'idx_list(self, old_child.name)[]', 'self.traversal_indexes{}',
              'tidx_list(self, old_child.name)[]', 'new_child._parent', 'new_child._traversal_parent',
              'field Segment._last_child_index'],
    allocates=['La.R', 'Ll'],
    properties=['C09', 'C10', 'C12'],
)

# set_parent_to_traversal: recursive promotion of the chain of temporary parents.  Its proof needs the ownership
# invariant for the whole chain (all ElementLists pairwise disjoint), which is not carried by the per-object
# contracts: the contract below is ASSUMED at call sites and monitored at run time (bounded tier).
contract(
    'hl7apy.core:Element.set_parent_to_traversal',
    sig={'self': 'Element'},
    returns='none',
    interface=True, verify=False,
    ensures=[
        ('promoted', 'implies(old(self._traversal_parent) is not None and old(self._parent) is None, '
                     'self._parent is old(self._traversal_parent))'),
        ('traversal_cleared', 'self._traversal_parent is None'),
        ('parent_kept', 'implies(old(self._parent) is not None, self._parent is old(self._parent))'),
        # tree shape: promotion only touches the containers of the element's ancestors, never its own children
        ('own_children_untouched', 'self.children is old(self.children) and self.children.list is old(self.children.list) and '
                                   'self.children.indexes is old(self.children.indexes) and '
                                   'self.children.traversal_indexes is old(self.children.traversal_indexes) and '
                                   'self.children.proxies is old(self.children.proxies) and '
                                   'list_unchanged(self.children.list) and dict_unchanged(self.children.indexes) and '
                                   'dict_unchanged(self.children.traversal_indexes) and self.children.element is self'),
    ],
    raises={n: {} for n in ('ChildNotValid', 'ChildNotFound', 'MaxChildLimitReached', 'OperationNotAllowed')},
    modifies=None,
    properties=['C11', 'C09'],
    notes='assumed (bounded monitor only): see DESIGN 3/K3',
)

contract(
    'hl7apy.core:ElementList.remove_by_name',
    sig={'self': 'ElementList', 'name': 'str', 'index': 'int'},
    returns='Element',
    requires=['sep(self)'],
    ensures=[
        ('addressed', 'result is old(child_at(self, name, index))'),
        ('real_child_list', 'implies(old(result._traversal_parent) is not self.element, ' +
         removed_first_of('self.list', 'self.list', 'result') + ')'),
        ('real_child_byname', 'implies(old(result._traversal_parent) is not self.element, ' +
         removed_first_of('old(idx_list(self, result.name))', 'old(idx_list(self, result.name))', 'result') + ')'),
        ('sep', 'sep(self)'),
    ],
    # C12/C15: deleting an absent child - child_at_index gives None and remove(None) fails on None.traversal_parent
    raises={'ValueError': {}, 'ChildNotFound': {}, 'ChildNotValid': {},
            'AttributeError': {'when': 'child_at(self, name, index) is None',
                               'ensures': [('unchanged', 'list_unchanged(self.list) and dict_unchanged(self.indexes)')],
                               'modifies': []}},
    modifies=['self.list[]', 'idx_list(self, child_at(self, name, index).name)[]',
              'tidx_list(self, child_at(self, name, index).name)[]', 'self.traversal_indexes{}'],
    allocates=['Dd', 'Dv.V', 'La.V', 'Ll'],
    properties=['C09', 'C12', 'C14'],
)

contract(
    'hl7apy.core:ElementList.get',
    sig={'self': 'ElementList', 'name': 'str'},
    returns='ElementProxy?',
    requires=['sep(self)', 'proxies_ok(self)'],
    ensures=[
        ('sep', 'sep(self)'),
        ('proxy_of_canonical_name',
         'implies(result is not None, result.element_list is self and '
         '(result.element_name == upper(name) if (idx_has(self, name) or tidx_has(self, name)) '
         'else result.element_name == upper(canon(self.element, upper(name)))))'),
        # C11: reading never writes the view
        ('view_untouched', 'list_unchanged(self.list) and dict_unchanged(self.indexes) and dict_unchanged(self.traversal_indexes)'),
    ],
    raises={'ChildNotFound': {'modifies': []}, 'ChildNotValid': {'modifies': []}},
    modifies=['self.proxies{}'],
    allocates=True,
    properties=['C11', 'C14'],
)

# ---- ElementList.set (string value): C09 "assignment replaces the addressed repetition in place or appends when
# absent", C11 "the first write materialises the path", C12 "a rejected assignment leaves the target unchanged"
contract(
    'hl7apy.core:Element.parse_child',
    sig={'self': 'Element', 'text': 'str', 'child_name': 'str?', 'reference': 'any'},
    returns='Element?',
    interface=True, verify=False,
    ensures=[('fresh_detached', 'implies(result is not None, is_fresh(result) and result._parent is None and '
                                'result._traversal_parent is None)')],
    raises={'HL7apyException': {'modifies': []}, 'ValueError': {'modifies': []}, 'TypeError': {'modifies': []},
            'IndexError': {'modifies': []}, 'KeyError': {'modifies': []}, 'AttributeError': {'modifies': []}},
    modifies=[],
    allocates=True,
    properties=['C09'],
    notes='interface contract of the parser entry points (a detached fresh tree or an exception); the parsers are '
          'covered by the decoder contracts and the bounded round-trip driver',
)

CN = 'canon(self.element, upper(name))'
TARGET = 'old(child_at(self, %s, index))' % CN
SET_REJECT = {'ensures': [('view_unchanged', 'list_unchanged(self.list) and dict_unchanged(self.indexes)'),
                          # C12 / C11: a rejected assignment does not materialise the temporary chain either
                          ('not_promoted', 'self.element._parent is old(self.element._parent) and '
                                           'self.element._traversal_parent is old(self.element._traversal_parent)')]}

contract(
    'hl7apy.core:ElementList.set[str]',
    sig={'self': 'ElementList', 'name': 'str', 'value': 'str', 'index': 'int'},
    returns='none',
    requires=['sep(self)', OWNED,
              'child_at(self, %s, index) is None or child_at(self, %s, index)._traversal_parent is not self.element' % (CN, CN),
              # the addressed child, if any, is a real child listed under its name (wf I2/I4 for that child)
              'implies(child_at(self, %s, index) is not None and child_at(self, %s, index)._traversal_parent is not self.element, '
              'any(self.list[k] is child_at(self, %s, index) for k in range(len(self.list))) and '
              'any(idx_item(self, %s, k) is child_at(self, %s, index) for k in range(idx_len(self, %s))) and '
              'child_at(self, %s, index).name == %s)' % ((CN,) * 8)],
    ensures=[
        # the functional clauses (appended when absent / replaced in place) are proved on append / insert /
        # replace_child; their composition through the parser interface is checked by the bounded history driver
        ('materialised', 'self.element._traversal_parent is None'),
        ('sep', 'sep(self)'),
    ],
    raises={n: {} for n in ('HL7apyException', 'ValueError', 'TypeError', 'IndexError', 'KeyError', 'AttributeError')},
    modifies=None,
    properties=[],      # not run: 6 call-site obligations stay undecided behind the parser interface's havoc (DESIGN 8)
)

# ---- ElementProxy: the by-name view handed out by ElementList.get (C10 "lookup by name ... len ... agree")
contract('hl7apy.core:ElementProxy.__len__', sig={'self': 'ElementProxy'}, returns='int',
         ensures=[('by_name_count', 'result == (idx_len(self.element_list, self.element_name) '
                                    'if idx_has(self.element_list, self.element_name) else 0)')],
         raises={}, raises_only=[], modifies=[], properties=['C10', 'C11'])
contract('hl7apy.core:ElementProxy.__getitem__', sig={'self': 'ElementProxy', 'index': 'int'}, returns='Element',
         requires=['sep(self.element_list)'],
         ensures=[('by_name_item', 'idx_has(self.element_list, self.element_name) and '
                                   'result is idx_item(self.element_list, self.element_name, '
                                   'index if index >= 0 else index + idx_len(self.element_list, self.element_name))')],
         raises={'IndexError': {'when': 'not idx_has(self.element_list, self.element_name) or '
                                        'index >= idx_len(self.element_list, self.element_name) or '
                                        'index < -idx_len(self.element_list, self.element_name)', 'modifies': []}},
         raises_only=['IndexError'], modifies=[], properties=['C10', 'C11'])

# del x.<name>[i]  (C09 "deletion removes exactly the addressed one"): the addressed repetition T = the i-th entry of the
# by-name index leaves the positional list (first occurrence of T, the entries before and after keep their order) and
# nothing else moves; an index out of range raises IndexError with the view untouched (C12)
_EL = 'self.element_list'
_NM = 'self.element_name'
_T = 'old(idx_item(%s, %s, index if index >= 0 else index + idx_len(%s, %s)))' % (_EL, _NM, _EL, _NM)
_OOR = ('not idx_has(%s, %s) or index >= idx_len(%s, %s) or index < -idx_len(%s, %s)' % ((_EL, _NM) * 3))
contract(
    'hl7apy.core:ElementProxy.__delitem__',
    sig={'self': 'ElementProxy', 'index': 'int'},
    returns='none',
    requires=['sep(%s)' % _EL],
    ensures=[
        ('sep', 'sep(%s)' % _EL),
        ('addressed_one_removed',
         'implies(%s._traversal_parent is not %s.element, %s)'
         % (_T, _EL, removed_first_of('%s.list' % _EL, '%s.list' % _EL, _T))),
        ('indexes_keys_kept', 'implies(%s._traversal_parent is not %s.element, dict_unchanged(%s.indexes) and '
                              'dict_unchanged(%s.traversal_indexes))' % (_T, _EL, _EL, _EL)),
    ],
    raises={'IndexError': {'when': _OOR, 'must': _OOR, 'modifies': []},
            'ValueError': {'ensures': [('list_kept', 'list_unchanged(%s.list)' % _EL)]}},
    raises_only=['IndexError', 'ValueError'],
    modifies=None,
    properties=['C09', 'C12'],
)
