"""K9 - utils / date-time format selection (C13)"""
from contracts import contract

contract(
    'hl7apy.utils:_get_date_format',
    sig={'value': 'str'},
    returns='str',
    ensures=[
        ('y', 'implies(strlen(value) == 4, result == "%Y")'),
        ('ym', 'implies(strlen(value) == 6, result == "%Y%m")'),
        ('ymd', 'implies(strlen(value) == 8, result == "%Y%m%d")'),
    ],
    raises={'ValueError': {'when': 'strlen(value) != 4 and strlen(value) != 6 and strlen(value) != 8',
                           'must': 'strlen(value) != 4 and strlen(value) != 6 and strlen(value) != 8'}},
    modifies=[],
    properties=['C13'],
)

contract(
    'hl7apy.utils:_get_timestamp_format',
    sig={'value': 'str'},
    returns='tuple[str,int]',
    ensures=[
        ('h', 'implies(strlen(value) == 2, result[0] == "%H" and result[1] == 4)'),
        ('hm', 'implies(strlen(value) == 4, result[0] == "%H%M" and result[1] == 4)'),
        ('hms', 'implies(strlen(value) == 6, result[0] == "%H%M%S" and result[1] == 4)'),
        ('frac', 'implies(8 <= strlen(value) and strlen(value) <= 11, '
                 'result[0] == "%H%M%S.%f" and result[1] == strlen(value) - 7 and char_at(value, 6) == ".")'),
        ('precision_range', '1 <= result[1] and result[1] <= 4'),
    ],
    raises={'ValueError': {
        'when': 'not (strlen(value) == 2 or strlen(value) == 4 or strlen(value) == 6 or '
                '(8 <= strlen(value) and strlen(value) <= 11 and char_at(value, 6) == "."))',
        'must': 'not (strlen(value) == 2 or strlen(value) == 4 or strlen(value) == 6 or '
                '(8 <= strlen(value) and strlen(value) <= 11 and char_at(value, 6) == "."))'}},
    modifies=[],
    properties=['C13'],
)

# the HL7 offset language, written from the property (C13): +0000..+1400, -0000..-1200, minutes 00-59, 00 at the extremes
contract(
    'hl7apy.utils:_split_offset',
    sig={'value': 'str'},
    returns='tuple[str,str]',
    ensures=[
        ('offset_split_off', 'implies(is_hl7_offset(tail5(value)), result[1] == tail5(value) and '
                             'result[0] == replace_all(value, tail5(value), ""))'),
        ('no_offset', 'implies(not is_hl7_offset(tail5(value)), result[0] == value and result[1] == "")'),
    ],
    raises={}, raises_only=[], modifies=[], allocates=False,
    properties=['C13'],
)

contract(
    'hl7apy.utils:_datetime_obj_factory',
    sig={'value': 'str', 'fmt': 'str'},
    returns='DateTime',
    ensures=[('accepted', 'strptime_ok(value, fmt)'), ('value', 'result is strptime_val(value, fmt)')],
    raises={'ValueError': {'when': 'not strptime_ok(value, fmt)', 'must': 'not strptime_ok(value, fmt)'}},
    raises_only=['ValueError'], modifies=[], allocates=False,
    properties=['C13'],
    notes='datetime.strptime is the final arbiter: its acceptance and value are uninterpreted functions of (text, format)',
)

contract(
    'hl7apy.utils:get_date_info',
    sig={'value': 'str'},
    returns='tuple[DateTime,str]',
    ensures=[('format_by_length', 'date_fmt_ok(value) and result[1] == date_fmt(value)'),
             ('parsed', 'strptime_ok(value, date_fmt(value)) and result[0] is strptime_val(value, date_fmt(value))')],
    raises={'ValueError': {'when': 'not (date_fmt_ok(value) and strptime_ok(value, date_fmt(value)))',
                           'must': 'not (date_fmt_ok(value) and strptime_ok(value, date_fmt(value)))'}},
    raises_only=['ValueError'], modifies=[], allocates=False,
    properties=['C13'],
)

_TV = 'date_part(value)'
_T_OK = 'time_fmt_ok(%s) and strptime_ok(%s, time_fmt(%s))' % (_TV, _TV, _TV)
contract(
    'hl7apy.utils:get_timestamp_info',
    sig={'value': 'str'},
    returns='tuple[DateTime,str,str,int]',
    ensures=[('accepted', _T_OK),
             ('format', 'result[1] == time_fmt(%s)' % _TV),
             ('offset', 'result[2] == offset_part(value)'),
             ('precision', 'result[3] == time_precision(%s)' % _TV),
             ('parsed', 'result[0] is strptime_val(%s, time_fmt(%s))' % (_TV, _TV))],
    raises={'ValueError': {'when': 'not (%s)' % _T_OK, 'must': 'not (%s)' % _T_OK}},
    raises_only=['ValueError'], modifies=[], allocates=False,
    properties=['C13'],
)

_D8 = 'substr(date_part(value), 0, 8)'
_REST = 'substr_from(date_part(value), 8)'
_DT_FMT = '(date_fmt(%s) + (time_fmt(%s) if strlen(%s) > 0 else ""))' % (_D8, _REST, _REST)
_DT_OK = ('date_fmt_ok(%s) and (strlen(%s) == 0 or time_fmt_ok(%s)) and strptime_ok(date_part(value), %s)'
          % (_D8, _REST, _REST, _DT_FMT))
contract(
    'hl7apy.utils:get_datetime_info',
    sig={'value': 'str'},
    returns='tuple[DateTime,str,str,int]',
    ensures=[('accepted', _DT_OK),
             ('format', 'result[1] == %s' % _DT_FMT),
             ('offset', 'result[2] == offset_part(value)'),
             ('precision', 'result[3] == (time_precision(%s) if strlen(%s) > 0 else 4)' % (_REST, _REST)),
             ('parsed', 'result[0] is strptime_val(date_part(value), %s)' % _DT_FMT)],
    raises={'ValueError': {'when': 'not (%s)' % _DT_OK, 'must': 'not (%s)' % _DT_OK}},
    raises_only=['ValueError'], modifies=[], allocates=False,
    properties=['C13'],
)

for _n, _callee_ok in (('check_date', 'date_fmt_ok(value) and strptime_ok(value, date_fmt(value))'),
                       ('check_timestamp', _T_OK), ('check_datetime', _DT_OK)):
    contract('hl7apy.utils:' + _n, sig={'value': 'str'}, returns='bool',
             ensures=[('verdict', 'result == (%s)' % _callee_ok)], raises={}, raises_only=[], modifies=[], allocates=False,
             properties=['C13'])
