"""K9 - utils / date-time format selection (C13)"""
from contracts import contract

contract(
    'hl7apy.utils:_get_date_format',
    sig={'value': 'str'},
    returns='str',
    ensures=[
        ('y', 'implies(strlen(value) == 4, result == "%Y")'),
        ('ym', 'implies(strlen(value) == 6, result == "%Y%m")'),
        ('ymd', 'implies(strlen(value) == 8, result == "%Y%m%d")'),
    ],
    raises={'ValueError': {'when': 'strlen(value) != 4 and strlen(value) != 6 and strlen(value) != 8',
                           'must': 'strlen(value) != 4 and strlen(value) != 6 and strlen(value) != 8'}},
    modifies=[],
    properties=['C13'],
)

contract(
    'hl7apy.utils:_get_timestamp_format',
    sig={'value': 'str'},
    returns='tuple[str,int]',
    ensures=[
        ('h', 'implies(strlen(value) == 2, result[0] == "%H" and result[1] == 4)'),
        ('hm', 'implies(strlen(value) == 4, result[0] == "%H%M" and result[1] == 4)'),
        ('hms', 'implies(strlen(value) == 6, result[0] == "%H%M%S" and result[1] == 4)'),
        ('frac', 'implies(8 <= strlen(value) and strlen(value) <= 11, '
                 'result[0] == "%H%M%S.%f" and result[1] == strlen(value) - 7 and char_at(value, 6) == ".")'),
        ('precision_range', '1 <= result[1] and result[1] <= 4'),
    ],
    raises={'ValueError': {
        'when': 'not (strlen(value) == 2 or strlen(value) == 4 or strlen(value) == 6 or '
                '(8 <= strlen(value) and strlen(value) <= 11 and char_at(value, 6) == "."))',
        'must': 'not (strlen(value) == 2 or strlen(value) == 4 or strlen(value) == 6 or '
                '(8 <= strlen(value) and strlen(value) <= 11 and char_at(value, 6) == "."))'}},
    modifies=[],
    properties=['C13'],
)
