"""Spec vocabulary: functions usable inside contract clauses (each builds z3 terms; native twins for the
run-time monitors live in bounded/native_vocab.py)."""
import z3

from contracts import specfunc, axioms
from pyvc.engine import SV, mk, Val, VNONE, IntS, BoolS, StrS, OutOfReach, code_of
from pyvc.tys import *   # noqa


@specfunc('fmt')
def fmt(ex, st, template, *args):
    """'template'.format(*args) as the engine models it (same uninterpreted function as the code's call)"""
    return ex.format_uf(st, ('format', template.py), list(args))


@specfunc('nrep')
def nrep(ex, st, proxy):
    """number of repetitions an ElementProxy stands for: len(indexes.get(name, []))"""
    el = ex.H(st, 'f.ElementProxy.element_list')[proxy.term]
    name = ex.H(st, 'f.ElementProxy.element_name')[proxy.term]
    idx = ex.H(st, 'f.ElementList.indexes')[el]
    present = ex.H(st, 'Dd')[idx][name]
    lst = ex.H(st, 'Dv.R')[idx][name]
    return SV(z3.If(present, ex.H(st, 'Ll')[lst], 0), INT)


@specfunc('is_exc')
def is_exc(ex, st, e, clsname, msg):
    """e (a boxed value) is an instance of exactly class `clsname` whose first argument is msg"""
    t = ex.term(e, 'V')
    a = Val.addr(t)
    cid = ex.world.cid(clsname.py)
    return SV(z3.And(Val.is_VRef(t), a > 0, ex.H(st, 'cls')[a] == cid,
                     ex.H(st, 'La.V')[a][0] == ex.term(msg, 'V'), ex.H(st, 'Ll')[a] == 1), BOOL)


@specfunc('strlen')
def strlen(ex, st, s):
    return SV(z3.Length(ex.term(s, 'S')), INT)


@specfunc('char_at')
def char_at(ex, st, s, i):
    return SV(z3.SubString(ex.term(s, 'S'), ex.term(i, 'I'), 1), STR)


@specfunc('substr')
def substr(ex, st, s, a, n):
    return SV(z3.SubString(ex.term(s, 'S'), ex.term(a, 'I'), ex.term(n, 'I')), STR)


@specfunc('strip')
def strip(ex, st, s):
    return SV(ex.f_strip()(ex.term(s, 'S')), STR)


@specfunc('split_len')
def split_len(ex, st, s, c):
    return SV(ex.f_split_len()(ex.term(s, 'S'), ex.term(c, 'S')), INT)


@specfunc('split_item')
def split_item(ex, st, s, c, i):
    return SV(ex.f_split_item()(ex.term(s, 'S'), ex.term(c, 'S'), ex.term(i, 'I')), STR)


@specfunc('first_line')
def first_line(ex, st, s):
    return SV(ex.f_split_item()(ex.term(s, 'S'), z3.StringVal('\r'), z3.IntVal(0)), STR)


@specfunc('global_')
def global_(ex, st, name):
    gk = name.py
    return SV(ex.H(st, 'g.' + gk), ex.world.globals_schema[gk])


@specfunc('dget')
def dget(ex, st, d, k):
    """d[k] for a str-keyed dict (unconstrained if absent)"""
    dt = d.ty.args[0] if d.ty.kind == 'opt' else d.ty
    code = code_of(dt.args[0])
    return SV(ex.H(st, 'Dv.' + code)[d.term][ex.term(k, 'S')], dt.args[0])


@specfunc('dhas')
def dhas(ex, st, d, k):
    return SV(ex.H(st, 'Dd')[d.term][ex.term(k, 'S')], BOOL)


@axioms
def string_axioms(ex):
    s = z3.String('ax_s')
    up = ex.f_upper()
    st = ex.f_strip()
    return [
        z3.ForAll([s], up(up(s)) == up(s)),
        z3.ForAll([s], z3.Length(up(s)) == z3.Length(s)),
        z3.ForAll([s], st(st(s)) == st(s)),
        z3.ForAll([s], z3.Length(st(s)) <= z3.Length(s)),
    ]


@specfunc('is_space')
def is_space(ex, st, c):
    """c (a 1-character string) is whitespace in the sense of the regex class \\s / str.isspace"""
    from pyvc import regex
    t = ex.term(c, 'S')
    return SV(z3.InRe(t, regex.union(regex.rng(a, b) for a, b in regex.ws_ranges())), BOOL)


@specfunc('all_distinct_chars')
def all_distinct_chars(ex, st, s):
    """no character occurs twice in s  (spec twin of  len(s) > len(set(s))  being false)"""
    t = ex.term(s, 'S')
    i = z3.Int('adc_i')
    j = z3.Int('adc_j')
    return SV(z3.ForAll([i, j], z3.Implies(z3.And(0 <= i, i < j, j < z3.Length(t)),
                                           z3.SubString(t, i, 1) != z3.SubString(t, j, 1))), BOOL)
