"""Spec vocabulary: functions usable inside contract clauses (each builds z3 terms; native twins for the
run-time monitors live in bounded/native_vocab.py)."""
import z3

from contracts import specfunc, axioms
from pyvc.engine import SV, mk, Val, VNONE, IntS, BoolS, StrS, OutOfReach, code_of, NONE_SV
from pyvc.tys import *   # noqa


@specfunc('fmt')
def fmt(ex, st, template, *args):
    """'template'.format(*args) as the engine models it (same uninterpreted function as the code's call)"""
    return ex.format_uf(st, ('format', template.py), list(args))


@specfunc('nrep')
def nrep(ex, st, proxy):
    """number of repetitions an ElementProxy stands for: len(indexes.get(name, []))"""
    el = ex.H(st, 'f.ElementProxy.element_list')[proxy.term]
    name = ex.H(st, 'f.ElementProxy.element_name')[proxy.term]
    idx = ex.H(st, 'f.ElementList.indexes')[el]
    present = ex.H(st, 'Dd')[idx][name]
    lst = ex.H(st, 'Dv.R')[idx][name]
    return SV(z3.If(present, ex.H(st, 'Ll')[lst], 0), INT)


@specfunc('is_exc')
def is_exc(ex, st, e, clsname, msg):
    """e (a boxed value) is an instance of exactly class `clsname` whose first argument is msg"""
    t = ex.term(e, 'V')
    a = Val.addr(t)
    cid = ex.world.cid(clsname.py)
    return SV(z3.And(Val.is_VRef(t), a > 0, ex.H(st, 'cls')[a] == cid,
                     ex.H(st, 'La.V')[a][0] == ex.term(msg, 'V'), ex.H(st, 'Ll')[a] == 1), BOOL)


@specfunc('strlen')
def strlen(ex, st, s):
    return SV(z3.Length(ex.term(s, 'S')), INT)


@specfunc('char_at')
def char_at(ex, st, s, i):
    return SV(z3.SubString(ex.term(s, 'S'), ex.term(i, 'I'), 1), STR)


@specfunc('substr')
def substr(ex, st, s, a, n):
    return SV(z3.SubString(ex.term(s, 'S'), ex.term(a, 'I'), ex.term(n, 'I')), STR)


@specfunc('strip')
def strip(ex, st, s):
    return SV(ex.f_strip()(ex.term(s, 'S')), STR)


@specfunc('split_len')
def split_len(ex, st, s, c):
    return SV(ex.f_split_len()(ex.term(s, 'S'), ex.term(c, 'S')), INT)


@specfunc('split_item')
def split_item(ex, st, s, c, i):
    return SV(ex.f_split_item()(ex.term(s, 'S'), ex.term(c, 'S'), ex.term(i, 'I')), STR)


@specfunc('first_line')
def first_line(ex, st, s):
    return SV(ex.f_split_item()(ex.term(s, 'S'), z3.StringVal('\r'), z3.IntVal(0)), STR)


@specfunc('global_')
def global_(ex, st, name):
    gk = name.py
    return SV(ex.H(st, 'g.' + gk), ex.world.globals_schema[gk])


@specfunc('dget')
def dget(ex, st, d, k):
    """d[k] for a str-keyed dict (unconstrained if absent)"""
    dt = d.ty.args[0] if d.ty.kind == 'opt' else d.ty
    code = code_of(dt.args[0])
    t = ex.H(st, 'Dv.' + code)[d.term][ex.dict_key(k)]
    if ex.spec_facts is not None:
        ex.spec_facts.extend(ex.type_facts(st, t, dt.args[0]))
    return SV(t, dt.args[0])


@specfunc('dhas')
def dhas(ex, st, d, k):
    return SV(ex.H(st, 'Dd')[d.term][ex.dict_key(k)], BOOL)


@axioms
def string_axioms(ex):
    s = z3.String('ax_s')
    up = ex.f_upper()
    st = ex.f_strip()
    return [
        z3.ForAll([s], up(up(s)) == up(s)),
        z3.ForAll([s], z3.Length(up(s)) == z3.Length(s)),
        z3.ForAll([s], st(st(s)) == st(s)),
        z3.ForAll([s], z3.Length(st(s)) <= z3.Length(s)),
    ]


@specfunc('is_space')
def is_space(ex, st, c):
    """c (a 1-character string) is whitespace in the sense of the regex class \\s / str.isspace"""
    from pyvc import regex
    t = ex.term(c, 'S')
    return SV(z3.InRe(t, regex.union(regex.rng(a, b) for a, b in regex.ws_ranges())), BOOL)


@specfunc('all_distinct_chars')
def all_distinct_chars(ex, st, s):
    """no character occurs twice in s  (spec twin of  len(s) > len(set(s))  being false)"""
    t = ex.term(s, 'S')
    i = z3.Int('adc_i')
    j = z3.Int('adc_j')
    return SV(z3.ForAll([i, j], z3.Implies(z3.And(0 <= i, i < j, j < z3.Length(t)),
                                           z3.SubString(t, i, 1) != z3.SubString(t, j, 1))), BOOL)


# ---------------------------------------------------------------------------------------------
# ElementList views (K2): by-name index and traversal index as spec functions of the current heap
def _elist_dict(ex, st, elist, field):
    return ex.H(st, 'f.ElementList.' + field)[elist.term]


def _name_term(ex, name):
    """name: str or str? -> (True, String key term); None is the reserved sentinel key, as in the engine"""
    kt = ex.dict_key(name)
    if kt is None:
        raise OutOfReach('name of kind %r' % (name,))
    return z3.BoolVal(True), kt


def _idx_parts(ex, st, elist, name, field):
    d = _elist_dict(ex, st, elist, field)
    ok, nt = _name_term(ex, name)
    present = z3.And(ok, ex.H(st, 'Dd')[d][nt])
    lst = ex.H(st, 'Dv.R')[d][nt]
    if getattr(ex, 'spec_facts', None) is not None:
        # heap typing invariant: a present key of a dict[list[Element]] maps to a live list object
        facts = ex.type_facts(st, lst, ListT(ObjT('Element')))
        ex.spec_facts.append(z3.Implies(present, z3.And(*facts)))
        ex.spec_facts.extend(ex.type_facts(st, d, DictT(ListT(ObjT('Element')))))
    return present, lst


@specfunc('idx_has')
def idx_has(ex, st, elist, name):
    p, _ = _idx_parts(ex, st, elist, name, 'indexes')
    return SV(p, BOOL)


@specfunc('idx_list')
def idx_list(ex, st, elist, name):
    p, lst = _idx_parts(ex, st, elist, name, 'indexes')
    return SV(z3.If(p, lst, 0), Opt(ListT(ObjT('Element'))))


@specfunc('idx_len')
def idx_len(ex, st, elist, name):
    p, lst = _idx_parts(ex, st, elist, name, 'indexes')
    return SV(z3.If(p, ex.H(st, 'Ll')[lst], 0), INT)


@specfunc('idx_item')
def idx_item(ex, st, elist, name, i):
    p, lst = _idx_parts(ex, st, elist, name, 'indexes')
    return SV(ex.H(st, 'La.R')[lst][ex.term(i, 'I')], ObjT('Element'))


@specfunc('tidx_has')
def tidx_has(ex, st, elist, name):
    p, _ = _idx_parts(ex, st, elist, name, 'traversal_indexes')
    return SV(p, BOOL)


@specfunc('tidx_list')
def tidx_list(ex, st, elist, name):
    p, lst = _idx_parts(ex, st, elist, name, 'traversal_indexes')
    return SV(z3.If(p, lst, 0), Opt(ListT(ObjT('Element'))))


@specfunc('tidx_len')
def tidx_len(ex, st, elist, name):
    p, lst = _idx_parts(ex, st, elist, name, 'traversal_indexes')
    return SV(z3.If(p, ex.H(st, 'Ll')[lst], 0), INT)


@specfunc('tidx_item')
def tidx_item(ex, st, elist, name, i):
    p, lst = _idx_parts(ex, st, elist, name, 'traversal_indexes')
    return SV(ex.H(st, 'La.R')[lst][ex.term(i, 'I')], ObjT('Element'))


@specfunc('dict_same_except')
def dict_same_except(ex, st, d, name):
    """every key other than `name` of the str-keyed dict d of lists has the same presence and maps to the same list
    object as in the pre-state (contents of those lists are covered by the modifies clause); postconditions only"""
    pre = ex.spec_ctx['pre']
    ok, nt = _name_term(ex, name)
    k = z3.FreshConst(StrS, 'dk')
    dom1, dom0 = ex.H(st, 'Dd')[d.term], ex.H(pre, 'Dd')[d.term]
    v1, v0 = ex.H(st, 'Dv.R')[d.term], ex.H(pre, 'Dv.R')[d.term]
    body = z3.And(dom1[k] == dom0[k], z3.Implies(dom0[k], v1[k] == v0[k]))
    return SV(z3.ForAll([k], z3.Implies(z3.Not(z3.And(ok, k == nt)), body)), BOOL)


@specfunc('dict_unchanged')
def dict_unchanged(ex, st, d):
    """same keys and same list objects as in the pre-state"""
    pre = ex.spec_ctx['pre']
    k = z3.FreshConst(StrS, 'dk')
    dom1, dom0 = ex.H(st, 'Dd')[d.term], ex.H(pre, 'Dd')[d.term]
    v1, v0 = ex.H(st, 'Dv.R')[d.term], ex.H(pre, 'Dv.R')[d.term]
    body = z3.And(dom1[k] == dom0[k], z3.Implies(dom0[k], v1[k] == v0[k]))
    return SV(z3.ForAll([k], body), BOOL)


@specfunc('list_unchanged')
def list_unchanged(ex, st, lst):
    """same length and, position by position, the same items as in the pre-state (lst: list of references)"""
    pre = ex.spec_ctx['pre']
    a = ex.term(lst, 'R')
    k = z3.FreshConst(IntS, 'lu')
    n0 = ex.H(pre, 'Ll')[a]
    return SV(z3.And(ex.H(st, 'Ll')[a] == n0,
                     z3.ForAll([k], z3.Implies(z3.And(0 <= k, k < n0),
                                               ex.H(st, 'La.R')[a][k] == ex.H(pre, 'La.R')[a][k]))), BOOL)


@specfunc('is_strict')
def is_strict(ex, st, level):
    return SV(ex.term(level, 'I') == 1, BOOL)


@specfunc('list_len_of')
def list_len_of(ex, st, lst):
    """current length of a list reference (possibly taken from the pre-state)"""
    return SV(ex.H(st, 'Ll')[lst.term], INT)


@specfunc('tidx_item_of')
def tidx_item_of(ex, st, lst, i):
    return SV(ex.H(st, 'La.R')[lst.term][ex.term(i, 'I')], ObjT('Element'))


@specfunc('canon')
def canon(ex, st, el, uname):
    """canonical child name that `el.find_child_reference(<a name whose upper() is uname>)` designates, or None.
    Uninterpreted function of the element's identity and the upper-cased name: structure maps are fixed at
    construction (ASSUMPTION; _set_datatype is the one place that rebuilds them)."""
    f = ex.uf('canon_name', IntS, StrS, Val)
    t = f(el.term, ex.term(uname, 'S'))
    return SV(t, Opt(STR))


@axioms
def canon_axioms(ex):
    f = ex.uf('canon_name', IntS, StrS, Val)
    a = z3.Int('cn_a')
    s = z3.String('cn_s')
    return [z3.ForAll([a, s], z3.Or(f(a, s) == VNONE, Val.is_VStr(f(a, s))))]


def _norm(i, n):
    return z3.If(i < 0, i + n, i)


@specfunc('finder')
def finder(ex, st, elist, name, index):
    """spec twin of child_at_index's _finder: indexes[name][index], else traversal_indexes[name][index], else None
    (python index semantics, negative indices included)"""
    i = ex.term(index, 'I')
    p1, l1 = _idx_parts(ex, st, elist, name, 'indexes')
    p2, l2 = _idx_parts(ex, st, elist, name, 'traversal_indexes')
    n1, n2 = ex.H(st, 'Ll')[l1], ex.H(st, 'Ll')[l2]
    j1, j2 = _norm(i, n1), _norm(i, n2)
    in1 = z3.And(p1, j1 >= 0, j1 < n1)
    in2 = z3.And(p2, j2 >= 0, j2 < n2)
    la = ex.H(st, 'La.R')
    return SV(z3.If(in1, la[l1][j1], z3.If(in2, la[l2][j2], 0)), Opt(ObjT('Element')))


@specfunc('sep')
def sep(ex, st, elist):
    """separation part of the ElementList representation invariant: the child list, every by-name list and every
    traversal list are pairwise distinct list objects, and the three dicts are distinct objects"""
    a = elist.term
    L = ex.H(st, 'f.ElementList.list')[a]
    I = ex.H(st, 'f.ElementList.indexes')[a]
    T = ex.H(st, 'f.ElementList.traversal_indexes')[a]
    P = ex.H(st, 'f.ElementList.proxies')[a]
    dd, dv = ex.H(st, 'Dd'), ex.H(st, 'Dv.R')
    k1 = z3.FreshConst(StrS, 'k1')
    k2 = z3.FreshConst(StrS, 'k2')
    return SV(z3.And(
        I != T, I != P, T != P,
        z3.ForAll([k1], z3.Implies(dd[I][k1], dv[I][k1] != L)),
        z3.ForAll([k1], z3.Implies(dd[T][k1], dv[T][k1] != L)),
        z3.ForAll([k1, k2], z3.Implies(z3.And(dd[I][k1], dd[T][k2]), dv[I][k1] != dv[T][k2])),
        z3.ForAll([k1, k2], z3.Implies(z3.And(dd[I][k1], dd[I][k2], k1 != k2), dv[I][k1] != dv[I][k2])),
        z3.ForAll([k1, k2], z3.Implies(z3.And(dd[T][k1], dd[T][k2], k1 != k2), dv[T][k1] != dv[T][k2])),
    ), BOOL)


@specfunc('is_fresh')
def is_fresh(ex, st, x):
    """x was allocated during the call (postconditions only)"""
    pre = ex.spec_ctx['pre']
    return SV(ex.term(x, 'R') >= ex.H(pre, 'next'), BOOL)


@specfunc('first_pos')
def first_pos(ex, st, lst, x):
    """index of the first occurrence of x in the reference list lst (in the state the expression is evaluated in),
    or -1.  A fresh function application whose defining facts are added as hypotheses (they are satisfiable for
    every list: the position exists or it does not)."""
    a = ex.term(lst, 'R')
    n = z3.If(a == 0, 0, ex.H(st, 'Ll')[a])
    arr = ex.H(st, 'La.R')[a]
    xt = ex.term(x, 'R')
    f = ex.uf('first_pos', z3.ArraySort(IntS, IntS), IntS, IntS, IntS)
    p = f(arr, n, xt)
    k = z3.FreshConst(IntS, 'fk')
    facts = [p >= -1, p < z3.If(n > 0, n, 0) + 0, z3.Implies(n <= 0, p == -1),
             z3.Implies(p >= 0, z3.And(arr[p] == xt, z3.ForAll([k], z3.Implies(z3.And(0 <= k, k < p), arr[k] != xt)))),
             z3.Implies(p == -1, z3.ForAll([k], z3.Implies(z3.And(0 <= k, k < n), arr[k] != xt)))]
    if getattr(ex, 'spec_facts', None) is not None:
        ex.spec_facts.extend(facts)
    return SV(p, INT)


@specfunc('list_at')
def list_at(ex, st, lst, i):
    """item i of a reference list given by its address (0 = absent list)"""
    return SV(ex.H(st, 'La.R')[ex.term(lst, 'R')][ex.term(i, 'I')], ObjT('Element'))


@specfunc('list_len')
def list_len(ex, st, lst):
    a = ex.term(lst, 'R')
    return SV(z3.If(a == 0, 0, ex.H(st, 'Ll')[a]), INT)


@specfunc('substr_from')
def substr_from(ex, st, s, a):
    t = ex.term(s, 'S')
    i = ex.term(a, 'I')
    n = z3.Length(t)
    lo = z3.If(i > n, n, i)
    return SV(z3.SubString(t, lo, n - lo), STR)


@specfunc('int_ok')
def int_ok(ex, st, s):
    return SV(ex.uf('int_ok', StrS, BoolS)(ex.term(s, 'S')), BOOL)


@specfunc('int_val')
def int_val(ex, st, s):
    return SV(ex.uf('int_val', StrS, IntS)(ex.term(s, 'S')), INT)


@specfunc('seg_last_ok')
def seg_last_ok(ex, st, el, obj):
    """open-ended bookkeeping: Segment._last_child_index of `el` is unchanged, or was raised to the field number of
    `obj` (int(obj.name[4:])); no other element's counter changes.  Postconditions only."""
    pre = ex.spec_ctx['pre']
    key = 'f.Segment._last_child_index'
    new, old = ex.H(st, key), ex.H(pre, key)
    e = ex.term(el, 'R')
    nm = ex.term(SV(ex.H(pre, 'f.Element.name')[ex.term(obj, 'R')], Opt(STR)), 'V')
    s = Val.sval(nm)
    ln = z3.Length(s)
    tail = z3.SubString(s, z3.If(ln < 4, ln, 4), ln - z3.If(ln < 4, ln, 4))
    n = ex.uf('int_val', StrS, IntS)(tail)
    a = z3.FreshConst(IntS, 'sl')
    flag = ex.H(pre, 'f.Segment.allow_infinite_children')[e]
    return SV(z3.And(z3.Or(new[e] == old[e], z3.And(flag, Val.is_VStr(nm), ln > 0, new[e] == n, n > old[e])),
                     z3.ForAll([a], z3.Implies(a != e, new[a] == old[a]))), BOOL)


@specfunc('child_at')
def child_at(ex, st, elist, name, index):
    """spec twin of ElementList.child_at_index"""
    el = SV(ex.H(st, 'f.ElementList.element')[elist.term], ObjT('Element'))
    up = ex.str_upper(name)
    cn = canon(ex, st, el, up)
    raw = finder(ex, st, elist, name, index)
    cnm = finder(ex, st, elist, cn, index)
    same = ex.eq(st, cn, name)
    same = same if not isinstance(same, bool) else z3.BoolVal(same)
    return SV(z3.If(same, raw.term, cnm.term), Opt(ObjT('Element')))


@specfunc('proxies_ok')
def proxies_ok(ex, st, elist):
    """I8: every cached proxy belongs to this list and stands for the (upper-cased) key it is cached under"""
    a = elist.term
    P = ex.H(st, 'f.ElementList.proxies')[a]
    k = z3.FreshConst(StrS, 'pk')
    pr = ex.H(st, 'Dv.R')[P][k]
    return SV(z3.ForAll([k], z3.Implies(ex.H(st, 'Dd')[P][k],
                                        z3.And(pr > 0, ex.H(st, 'f.ElementProxy.element_list')[pr] == a,
                                               ex.H(st, 'f.ElementProxy.element_name')[pr] == ex.f_upper()(k)))), BOOL)


# ---- structure records (C08)
def _rec(ex, st, obj, cls, field):
    key = ex.world.field_key(cls, field)
    return ex.H(st, key)[ex.term(obj, 'R')]


@specfunc('stack_item')
def stack_item(ex, st, lst, k):
    """the k-th (name, reference) tuple object of the parents stack"""
    return SV(Val.addr(ex.H(st, 'La.V')[lst.term][ex.term(k, 'I')]) if False else ex.H(st, 'La.R')[lst.term][ex.term(k, 'I')],
              TupleT(ANY, ObjT('RefStruct')))


@specfunc('stack_ref')
def stack_ref(ex, st, lst, k):
    """the reference (second item) of the k-th stack entry"""
    t = ex.H(st, 'La.R')[lst.term][ex.term(k, 'I')]
    return SV(Val.addr(ex.H(st, 'La.V')[t][1]), ObjT('RefStruct'))


@specfunc('entry_kind')
def entry_kind(ex, st, c):
    return SV(_rec(ex, st, c, 'ChildEntry', 'kind'), STR)


def _kids(ex, st, ref):
    kids = _rec(ex, st, ref, 'RefStruct', 'children')
    if getattr(ex, 'spec_facts', None) is not None:
        # typing of the locations read (heap invariants): the reference and its children tuple are live objects
        ex.spec_facts.extend(ex.type_facts(st, ex.term(ref, 'R'), ObjT('RefStruct')))
        ex.spec_facts.extend(ex.type_facts(st, kids, TupleVar(ObjT('ChildEntry'))))
    return ex.H(st, 'La.R')[kids], ex.H(st, 'Ll')[kids]


def _fact(ex, f):
    if getattr(ex, 'spec_facts', None) is not None:
        ex.spec_facts.append(f)


@specfunc('ref_arity')
def ref_arity(ex, st, ref):
    return SV(_rec(ex, st, ref, 'RefStruct', '_len'), INT)


@specfunc('n_children')
def n_children(ex, st, ref):
    return SV(_kids(ex, st, ref)[1], INT)


@specfunc('child_entry')
def child_entry(ex, st, ref, j):
    """the j-th (name, reference, cardinality, kind) entry of a structure reference"""
    return SV(_kids(ex, st, ref)[0][ex.term(j, 'I')], ObjT('ChildEntry'))


@specfunc('entry_ref')
def entry_ref(ex, st, c):
    return SV(_rec(ex, st, c, 'ChildEntry', 'ref'), Opt(ObjT('RefStruct')))


@specfunc('is_child_entry')
def is_child_entry(ex, st, ref, c):
    """membership of the entry object c in ref's children, existential-free: pos is a witness function (for a
    member it returns an index holding it - the closed fact below; for a non-member no index can satisfy the test)"""
    arr, n = _kids(ex, st, ref)
    pos = ex.uf('entry_pos', z3.ArraySort(IntS, IntS), IntS, IntS, IntS)
    k = z3.FreshConst(IntS, 'ek')
    w = pos(arr, n, arr[k])
    _fact(ex, z3.ForAll([k], z3.Implies(z3.And(0 <= k, k < n), z3.And(0 <= w, w < n, arr[w] == arr[k])), patterns=[arr[k]]))
    ct = ex.term(c, 'R')
    wc = pos(arr, n, ct)
    return SV(z3.And(0 <= wc, wc < n, arr[wc] == ct), BOOL)


@specfunc('seg_idx')
def seg_idx(ex, st, ref, name):
    """index of the first SEG entry called `name` among ref's children, or -1 (defining facts added as hypotheses)"""
    arr, n = _kids(ex, st, ref)
    kind = ex.H(st, 'f.ChildEntry.kind')
    nm = ex.H(st, 'f.ChildEntry.name')
    nt = ex.term(name, 'S')
    f = ex.uf('seg_idx', z3.ArraySort(IntS, IntS), IntS, kind.sort(), nm.sort(), StrS, IntS)
    p = f(arr, n, kind, nm, nt)
    k = z3.FreshConst(IntS, 'sk')
    hit = lambda j: z3.And(kind[arr[j]] == z3.StringVal('SEG'), nm[arr[j]] == nt)
    _fact(ex, z3.And(p >= -1, z3.Or(p == -1, p < n)))
    _fact(ex, z3.Implies(p >= 0, hit(p)))
    _fact(ex, z3.ForAll([k], z3.Implies(z3.And(0 <= k, k < n, z3.Or(p == -1, k < p)), z3.Not(hit(k))), patterns=[arr[k]]))
    return SV(p, INT)


@specfunc('declares_grp_entry')
def declares_grp_entry(ex, st, ref, c):
    """declares_grp for the (name, reference) pair of the child-entry object c (used in the loop invariant: the pair
    pushed on the stack is built from such an entry)"""
    return _declares_grp(ex, st, ref, None, c)


@specfunc('declares_grp')
def declares_grp(ex, st, ref, entry):
    return _declares_grp(ex, st, ref, entry, None)


def _declares_grp(ex, st, ref, entry, centry):
    """the stack entry (name, reference) restates a GRP child of ref, existential-free: grp_wit is a witness function.
    Defining fact (ground, added where an entry object is at hand): for a GRP member c of ref's children,
    grp_wit(..., name(c), ref(c)) is an index of a GRP child with that name and reference (c's own index is one)."""
    kind = ex.H(st, 'f.ChildEntry.kind')
    nm = ex.H(st, 'f.ChildEntry.name')
    rf = ex.H(st, 'f.ChildEntry.ref')
    wit = ex.uf('grp_wit', z3.ArraySort(IntS, IntS), IntS, kind.sort(), nm.sort(), rf.sort(), Val, Val, IntS)

    def pred(arr, n, e0, e1):
        w = wit(arr, n, kind, nm, rf, e0, e1)
        return z3.And(0 <= w, w < n, kind[arr[w]] == z3.StringVal('GRP'), Val.VStr(nm[arr[w]]) == e0, Val.VRef(rf[arr[w]]) == e1)
    arr, n = _kids(ex, st, ref)
    if centry is not None:
        ct = ex.term(centry, 'R')
        pos = ex.uf('entry_pos', z3.ArraySort(IntS, IntS), IntS, IntS, IntS)
        W = pos(arr, n, ct)
        p = pred(arr, n, Val.VStr(nm[ct]), Val.VRef(rf[ct]))
        _fact(ex, z3.Implies(z3.And(0 <= W, W < n, arr[W] == ct, kind[ct] == z3.StringVal('GRP')), p))
        return SV(p, BOOL)
    e = ex.H(st, 'La.V')[ex.term(entry, 'R')]
    return SV(pred(arr, n, e[0], e[1]), BOOL)


@specfunc('nonempty')
def nonempty(ex, st, x):
    """truthiness of a None-able list"""
    t = ex.truth(st, x)
    return SV(t if not isinstance(t, bool) else z3.BoolVal(t), BOOL)


@specfunc('tuple_len')
def tuple_len(ex, st, x):
    if x.is_py and isinstance(x.py, tuple):
        return mk(len(x.py))
    t = ex.term(x, 'R') if x.ty.kind != 'any' else Val.addr(x.term)
    return SV(ex.H(st, 'Ll')[t], INT)


@specfunc('pct')
def pct(ex, st, template, *args):
    """'template' % (args...) as the engine models it"""
    return ex.format_uf(st, ('%', template.py), list(args))


@specfunc('re_escape')
def re_escape(ex, st, s):
    return SV(ex.uf('re_escape', StrS, StrS)(ex.term(s, 'S')), STR)


@specfunc('er7_of')
def er7_of(ex, st, el, ec, trailing):
    f = ex.uf('er7_of', IntS, IntS, BoolS, StrS)
    return SV(f(ex.term(el, 'R'), ex.term(ec, 'R'), ex.term(trailing, 'B')), STR)


@specfunc('msg_ec')
def msg_ec(ex, st, m):
    f = ex.uf('msg_ec', IntS, IntS)
    t = f(ex.term(m, 'R'))
    if getattr(ex, 'spec_facts', None) is not None:
        ex.spec_facts.extend(ex.type_facts(st, t, DictT(STR)))
    return SV(t, DictT(STR))


def _offset_re():
    from pyvc import regex
    return regex.Compiled(r'(\+(1400|(1[0-3]|0[0-9])[0-5][0-9])|-(1200|(1[01]|0[0-9])[0-5][0-9]))').re


@specfunc('is_hl7_offset')
def is_hl7_offset(ex, st, s):
    """s is a time-zone offset as HL7 defines it for TM/DTM: +0000..+1400 or -0000..-1200"""
    return SV(z3.InRe(ex.term(s, 'S'), _offset_re()), BOOL)


@specfunc('tail5')
def tail5(ex, st, s):
    """the last five characters of s, ignoring one trailing newline when the five before it form an offset (the `$`
    anchor tolerates one trailing newline and the leftmost match wins)"""
    t = ex.term(s, 'S')
    n = z3.Length(t)
    before_nl = z3.And(n >= 6, z3.SubString(t, n - 1, 1) == z3.StringVal('\n'), z3.InRe(z3.SubString(t, n - 6, 5), _offset_re()))
    end = z3.If(before_nl, n - 1, n)
    return SV(z3.SubString(t, end - 5, 5), STR)


@specfunc('replace_all')
def replace_all(ex, st, s, a, b):
    f = ex.uf('replace_all', StrS, StrS, StrS, StrS)
    return SV(f(ex.term(s, 'S'), ex.term(a, 'S'), ex.term(b, 'S')), STR)


# ---- datetime.strptime / strftime (ASSUMED contracts on the C library; see DESIGN 2.4): uninterpreted acceptance
# predicate and value function of (text, format)
def _strptime_ok(ex):
    return ex.uf('strptime_ok', StrS, StrS, BoolS)


def _strptime_val(ex):
    return ex.uf('strptime_val', StrS, StrS, IntS)


@specfunc('strptime_ok')
def strptime_ok(ex, st, s, f):
    return SV(_strptime_ok(ex)(ex.term(s, 'S'), ex.term(f, 'S')), BOOL)


@specfunc('strptime_val')
def strptime_val(ex, st, s, f):
    return SV(_strptime_val(ex)(ex.term(s, 'S'), ex.term(f, 'S')), ObjT('DateTime'))


@specfunc('date_part')
def date_part(ex, st, s):
    """value with its offset removed, as _split_offset computes it"""
    t5 = tail5(ex, st, s)
    isoff = z3.InRe(t5.term, _offset_re())
    f = ex.uf('replace_all', StrS, StrS, StrS, StrS)
    return SV(z3.If(isoff, f(ex.term(s, 'S'), t5.term, z3.StringVal('')), ex.term(s, 'S')), STR)


@specfunc('offset_part')
def offset_part(ex, st, s):
    t5 = tail5(ex, st, s)
    isoff = z3.InRe(t5.term, _offset_re())
    return SV(z3.If(isoff, t5.term, z3.StringVal('')), STR)


@specfunc('date_fmt')
def date_fmt(ex, st, s):
    """format _get_date_format selects by length ('' if it rejects)"""
    n = z3.Length(ex.term(s, 'S'))
    return SV(z3.If(n == 4, z3.StringVal('%Y'), z3.If(n == 6, z3.StringVal('%Y%m'), z3.If(n == 8, z3.StringVal('%Y%m%d'), z3.StringVal('')))), STR)


@specfunc('date_fmt_ok')
def date_fmt_ok(ex, st, s):
    n = z3.Length(ex.term(s, 'S'))
    return SV(z3.Or(n == 4, n == 6, n == 8), BOOL)


@specfunc('time_fmt_ok')
def time_fmt_ok(ex, st, s):
    t = ex.term(s, 'S')
    n = z3.Length(t)
    return SV(z3.Or(n == 2, n == 4, n == 6, z3.And(n >= 8, n <= 11, z3.SubString(t, 6, 1) == z3.StringVal('.'))), BOOL)


@specfunc('time_fmt')
def time_fmt(ex, st, s):
    t = ex.term(s, 'S')
    n = z3.Length(t)
    return SV(z3.If(n == 2, z3.StringVal('%H'), z3.If(n == 4, z3.StringVal('%H%M'), z3.If(n == 6, z3.StringVal('%H%M%S'),
                                                                                         z3.StringVal('%H%M%S.%f')))), STR)


@specfunc('time_precision')
def time_precision(ex, st, s):
    t = ex.term(s, 'S')
    n = z3.Length(t)
    return SV(z3.If(z3.And(n >= 8, n <= 11), n - 7, 4), INT)


@specfunc('lvl_or_default')
def lvl_or_default(ex, st, lvl):
    """the validation level in force: the argument, or the process default when it is None"""
    d = ex.H(st, 'g.hl7apy:_DEFAULT_VALIDATION_LEVEL')
    if lvl.is_py:
        return SV(d, INT) if lvl.py is None else mk(lvl.py)
    if lvl.ty.kind == 'int':
        return lvl
    t = ex.term(lvl, 'V')
    return SV(z3.If(t == VNONE, d, Val.ival(t)), INT)


@specfunc('is_integral')
def is_integral(ex, st, v):
    """isinstance(v, numbers.Integral) for the value kinds of the model (ints and bools)"""
    t = ex.term(v, 'V')
    return SV(z3.Or(Val.is_VInt(t), Val.is_VBool(t)), BOOL)


@specfunc('allowed_format')
def allowed_format(ex, st, obj, f):
    """f is one of the allowed_formats of obj's dynamic class (a class attribute of the real classes)"""
    cls = ex.H(st, 'cls')[ex.term(obj, 'R')]
    ft = ex.term(f, 'S')
    alts = []
    for n, c in ex.world.classes.items():
        af = getattr(c, 'allowed_formats', None)
        if af is not None and n in ex.world.subclasses('DateTimeDataType'):
            alts.append(z3.And(cls == ex.world.cid(n), z3.Or(*[ft == z3.StringVal(x) for x in af]) if af else z3.BoolVal(False)))
    return SV(z3.Or(*alts), BOOL)


@specfunc('offset_in_range')
def offset_in_range(ex, st, off):
    """(hour, minute) of the offset text (as strptime('%H%M') reads it) does not exceed +14:00 / -12:00"""
    o = ex.term(off, 'S')
    d = _strptime_val(ex)(z3.SubString(o, 1, z3.Length(o) - 1), z3.StringVal('%H%M'))
    h = ex.H(st, 'f.DateTime.hour')[d]
    m = ex.H(st, 'f.DateTime.minute')[d]
    sign = z3.SubString(o, 0, 1)
    over = lambda H: z3.Or(h > H, z3.And(h == H, m > 0))
    return SV(z3.And(z3.Implies(sign == z3.StringVal('+'), z3.Not(over(14))),
                     z3.Implies(sign == z3.StringVal('-'), z3.Not(over(12)))), BOOL)


@axioms
def strptime_axioms(ex):
    """ASSUMED facts about datetime.strptime (validated by selftest/diff_builtins.py): a text accepted under one of the
    numeric formats used by the library is not empty"""
    ok = ex.uf('strptime_ok', StrS, StrS, BoolS)
    s = z3.String('sp_s')
    fmts = ['%H%M', '%Y', '%Y%m', '%Y%m%d', '%H', '%H%M%S', '%H%M%S.%f', '%Y%m%d%H', '%Y%m%d%H%M', '%Y%m%d%H%M%S', '%Y%m%d%H%M%S.%f']
    return [z3.ForAll([s], z3.Implies(ok(s, z3.StringVal(f)), z3.Length(s) >= 1)) for f in fmts]


@specfunc('strftime')
def strftime_(ex, st, v, f):
    t = ex.term(v, 'V')
    return SV(ex.uf('strftime', t.sort(), StrS, StrS)(t, ex.term(f, 'S')), STR)


@specfunc('contains')
def contains_(ex, st, s, sub):
    return SV(z3.Contains(ex.term(s, 'S'), ex.term(sub, 'S')), BOOL)


@specfunc('drop_last')
def drop_last(ex, st, s, k):
    """s[:-k] for k >= 1 (python slice semantics)"""
    t = ex.term(s, 'S')
    n = z3.Length(t)
    kk = ex.term(k, 'I')
    keep = z3.If(n - kk < 0, 0, n - kk)
    return SV(z3.SubString(t, 0, keep), STR)


@specfunc('class_name_of')
def class_name_of(ex, st, obj):
    """type(obj).__name__ for the registered classes (the class table of the heap maps addresses to class ids)"""
    cid = ex.H(st, 'cls')[ex.term(obj, 'R')]
    t = z3.StringVal('?')
    for n, i in sorted(ex.world.class_ids.items(), key=lambda kv: kv[1]):
        t = z3.If(cid == i, z3.StringVal(n), t)
    return SV(t, STR)


@specfunc('refval_is')
def refval_is(ex, st, v, r):
    """a dynamically typed field holds exactly the reference r"""
    t = ex.term(v, 'V')
    return SV(z3.And(Val.is_VRef(t), Val.addr(t) == ex.term(r, 'R')), BOOL)


@specfunc('is_varies_class')
def is_varies_class(ex, st, obj):
    cid = ex.H(st, 'cls')[ex.term(obj, 'R')]
    ids = [i for n, i in ex.world.class_ids.items() if n in ('Field', 'Component', 'SubComponent', 'CanBeVaries', 'SupportComplexDataType')]
    return SV(z3.Or(*[cid == i for i in ids]) if ids else z3.BoolVal(False), BOOL)


@specfunc('isstr')
def isstr(ex, st, v):
    """a dynamically typed value is a str"""
    if v.ty.kind == 'str':
        return SV(z3.BoolVal(True), BOOL)
    return SV(Val.is_VStr(ex.term(v, 'V')), BOOL)


@specfunc('ref_kind')
def ref_kind(ex, st, ref):
    return SV(_rec(ex, st, ref, 'RefStruct', 'kind'), STR)


@specfunc('entry_name')
def entry_name(ex, st, c):
    return SV(_rec(ex, st, c, 'ChildEntry', 'name'), STR)


@specfunc('method:Library.get_base_datatypes')
def library_get_base_datatypes(ex, st, obj, args, kwargs, fr):
    """lib.get_base_datatypes(): the library's own (process-wide) table of base datatype classes - the same object on
    every call, never a copy"""
    yield ex.read_field(st, obj, 'base_datatypes')


@specfunc('slot_at')
def slot_at(ex, st, lst, k):
    """item k of a list of (optional) references, as a reference (0 = None)"""
    return SV(ex.H(st, 'La.R')[ex.term(lst, 'R')][ex.term(k, 'I')], Opt(ListT(ObjT('Element'))))


@specfunc('list_at_str')
def list_at_str(ex, st, lst, k):
    return SV(ex.H(st, 'La.S')[ex.term(lst, 'R')][ex.term(k, 'I')], STR)


@specfunc('dget_ref')
def dget_ref(ex, st, d, key):
    """d.get(key) for a dict of references: the stored reference, None (0) when the key is absent"""
    a = ex.term(d, 'R')
    kt = ex.term(key, 'S')
    return SV(z3.If(ex.H(st, 'Dd')[a][kt], ex.H(st, 'Dv.R')[a][kt], z3.IntVal(0)), Opt(ListT(ObjT('Element'))))


@specfunc('tuple_first')
def tuple_first(ex, st, lst, k):
    """first item of the k-th tuple of a list of tuples, as a reference"""
    t = ex.H(st, 'La.R')[ex.term(lst, 'R')][ex.term(k, 'I')]
    return SV(Val.addr(ex.H(st, 'La.V')[t][0]), ObjT('Element'))


@specfunc('nonempty_dict')
def nonempty_dict(ex, st, d):
    """truthiness of a dict reference (None is falsy, an empty dict is falsy)"""
    a = ex.term(d, 'R')
    # the engine's own measure of a dict's size (uninterpreted `dsize` of the key set): the same term the code path yields
    return SV(z3.And(a != 0, ex.uf('dsize', z3.ArraySort(StrS, BoolS), IntS)(ex.H(st, 'Dd')[a]) > 0), BOOL)


@specfunc('is_unknown_of')
def is_unknown_of(ex, st, el):
    """what el.is_unknown() answers: Field / Component / SubComponent compare the name with the datatype, every other
    element is unknown when it has no name (the three definitions in core.py, proved against this function)"""
    a = ex.term(el, 'R')
    cid = ex.H(st, 'cls')[a]
    ids = [i for n, i in ex.world.class_ids.items() if n in ('Field', 'Component', 'SubComponent', 'SupportComplexDataType', 'CanBeVaries')]
    name = ex.H(st, ex.world.field_key('Element', 'name'))[a]
    dt = ex.H(st, ex.world.field_key('Element', '_datatype'))[a]
    return SV(z3.If(z3.Or(*[cid == i for i in ids]), name == dt, name == VNONE), BOOL)


@specfunc('new:ErrorsAndWarnings')
def new_errors_and_warnings(ex, st, cls, args, kwargs, fr):
    """the namedtuple (is_valid, errors, warnings): a plain 3-tuple"""
    vals = list(args) + [kwargs[k] for k in ('is_valid', 'errors', 'warnings')[len(args):]]
    yield st, SV(None, Ty('pytuple'), tuple(vals))


def _report(ex, st, r):
    if r.is_py and isinstance(r.py, tuple):
        return r.py
    return None


@specfunc('report_is_valid')
def report_is_valid(ex, st, r):
    t = _report(ex, st, r)
    if t is not None:
        c = ex.truth(st, t[0])
        return SV(c if not isinstance(c, bool) else z3.BoolVal(c), BOOL)
    if r.is_py:
        return SV(z3.FreshConst(BoolS, 'not_a_report'), BOOL)      # (the clause guards this case away)
    return SV(Val.bval(ex.H(st, 'La.V')[ex.term(r, 'R')][0]), BOOL)


@specfunc('report_error_count')
def report_error_count(ex, st, r):
    t = _report(ex, st, r)
    if t is not None:
        return SV(ex.H(st, 'Ll')[ex.term(t[1], 'R')], INT)
    if r.is_py:
        return SV(z3.FreshConst(IntS, 'not_a_report'), INT)
    lst = Val.addr(ex.H(st, 'La.V')[ex.term(r, 'R')][1])
    return SV(ex.H(st, 'Ll')[lst], INT)


@specfunc('ec_of')
def ec_of(ex, st, el):
    """the encoding characters an element works with (C07): those of its parent, else of its temporary (traversal)
    parent, else - for a Message - the message's own (msg_ec), else the defaults of its version.  An uninterpreted
    function of the link / version / class arrays and the address, introduced by its one-step unfolding at the address
    asked (and at its two possible predecessors' addresses one more step is available by asking again)."""
    a = ex.term(el, 'R')
    par = ex.H(st, ex.world.field_key('Element', '_parent'))
    tp = ex.H(st, ex.world.field_key('Element', '_traversal_parent'))
    ver = ex.H(st, ex.world.field_key('Element', 'version'))
    cls = ex.H(st, 'cls')
    d27 = ex.H(st, 'g.hl7apy:_DEFAULT_ENCODING_CHARS_27')
    d = ex.H(st, 'g.hl7apy:_DEFAULT_ENCODING_CHARS')
    f = ex.uf('ec_of', par.sort(), tp.sort(), ver.sort(), cls.sort(), IntS, IntS, IntS, IntS)
    m = ex.uf('msg_ec', IntS, IntS)
    mid = ex.world.cid('Message')

    def app(x):
        return f(par, tp, ver, cls, d27, d, x)
    v = ver[a]
    dflt = z3.If(z3.And(z3.Length(v) > 0, z3.Not(v < z3.StringVal('2.7'))), d27, d)
    unfold = z3.If(cls[a] == mid, m(a),
                   z3.If(par[a] != 0, app(par[a]), z3.If(tp[a] != 0, app(tp[a]), dflt)))
    _fact(ex, app(a) == unfold)
    if getattr(ex, 'spec_facts', None) is not None:
        ex.spec_facts.extend(ex.type_facts(st, app(a), DictT(STR)))
    return SV(app(a), DictT(STR))


@specfunc('method:RoutedHandler.reply')
def routed_handler_reply(ex, st, obj, args, kwargs, fr):
    """h.reply(): user code - any string (the handler's reply_text) or any exception; the ghost `replier` remembers which
    handler produced the reply that is being returned"""
    st1 = st.copy()
    st1.ghost = dict(st1.ghost)
    st1.ghost['replier'] = obj
    yield ex.read_field(st1, obj, 'reply_text')
    yield ex.raise_(st, Exception, 'handler code')


@specfunc('replier')
def replier(ex, st):
    r = st.ghost.get('replier')
    if r is None:
        # the contract applied at a call site: "some handler replied" - one Skolem handler per application
        pre = (getattr(ex, 'spec_ctx', None) or {}).get('pre')
        cache = ex.__dict__.setdefault('_replier_cache', {})
        key = id(pre)
        if key not in cache:
            cache[key] = (pre, z3.FreshConst(IntS, 'replier'))       # (pre kept alive so that the id stays unique)
        t = cache[key][1]
        if getattr(ex, 'spec_facts', None) is not None:
            ex.spec_facts.extend(ex.type_facts(st, t, ObjT('RoutedHandler')))
        return SV(t, ObjT('RoutedHandler'))
    return r


@specfunc('tuple_item_any')
def tuple_item_any(ex, st, v, i):
    """item i of a tuple held in a dynamically typed place"""
    a = Val.addr(ex.term(v, 'V'))
    return SV(ex.H(st, 'La.V')[a][ex.term(i, 'I')], ANY)


@specfunc('all_handler_entries_are_tuples')
def all_handler_entries_are_tuples(ex, st, d):
    """the handlers table maps every key to a tuple (handler class, *args) - how MLLPServer documents it"""
    a = ex.term(d, 'R')
    k = z3.FreshConst(StrS, 'hk')
    v = ex.H(st, 'Dv.V')[a][k]
    va = Val.addr(v)
    return SV(z3.ForAll([k], z3.Implies(ex.H(st, 'Dd')[a][k],
                                        z3.And(Val.is_VRef(v), va > 0, va < ex.H(st, 'next'), ex.H(st, 'cls')[va] == ex.world.cid('tuple'),
                                               ex.H(st, 'Ll')[va] >= 1))), BOOL)


@specfunc('opt_str')
def opt_str(ex, st, cond, s):
    """`s if cond else None` as an optional string"""
    c = ex.truth(st, cond)
    c = c if not isinstance(c, bool) else z3.BoolVal(c)
    return SV(z3.If(c, Val.VStr(ex.term(s, 'S')), VNONE), Opt(STR))


def _timeout_cls():
    import socket
    return socket.timeout


@specfunc('method:Socket.recv')
def socket_recv(ex, st, obj, args, kwargs, fr):
    """request.recv(n): at most n bytes (possibly none), or socket.timeout"""
    n = ex.term(args[0], 'I')
    b = z3.FreshConst(StrS, 'recv')
    st1 = st.assume(z3.And(z3.Length(b) >= 0, z3.Length(b) <= n))
    yield st1, SV(b, BYTES)
    yield ex.raise_(st, _timeout_cls(), 'timed out')


@specfunc('method:RFile.read')
def rfile_read(ex, st, obj, args, kwargs, fr):
    n = ex.term(args[0], 'I')
    b = z3.FreshConst(StrS, 'read')
    st1 = st.assume(z3.And(z3.Length(b) >= 0, z3.Length(b) <= n))
    yield st1, SV(b, BYTES)
    yield ex.raise_(st, _timeout_cls(), 'timed out')


@specfunc('method:Socket.close')
def socket_close(ex, st, obj, args, kwargs, fr):
    st1, c = ex.read_field(st, obj, 'nclosed')
    yield ex.write_field(st1, obj, 'nclosed', SV(c.term + 1, INT)), NONE_SV


@specfunc('method:WFile.write')
def wfile_write(ex, st, obj, args, kwargs, fr):
    st1, c = ex.read_field(st, obj, 'nwrites')
    st2 = ex.write_field(st1, obj, 'nwrites', SV(c.term + 1, INT))
    st2 = ex.write_field(st2, obj, 'last', args[0])
    yield st2, NONE_SV


@specfunc('slot_len')
def slot_len(ex, st, lst, k):
    """length of the k-th item (a tuple / list reference) of a list of references"""
    t = ex.H(st, 'La.R')[ex.term(lst, 'R')][ex.term(k, 'I')]
    return SV(ex.H(st, 'Ll')[t], INT)


@specfunc('max0')
def max0(ex, st, x):
    t = ex.term(x, 'I')
    return SV(z3.If(t > 0, t, 0), INT)


@specfunc('arg')
def call_arg(ex, st, i):
    """i-th positional argument of the call a `call_asserts` clause is attached to (None when not given)"""
    args, kwargs = ex._cur_call
    return args[i.py] if i.py < len(args) else NONE_SV


@specfunc('kwarg')
def call_kwarg(ex, st, name):
    args, kwargs = ex._cur_call
    return kwargs.get(name.py, NONE_SV)


@specfunc('dget_any')
def dget_any(ex, st, d, k):
    """d[k] for a dict of dynamically typed values given by reference"""
    a = ex.term(d, 'R')
    return SV(ex.H(st, 'Dv.V')[a][ex.dict_key(k)], ANY)


@specfunc('pairwise_distinct')
def pairwise_distinct(ex, st, lst):
    """no object occurs twice in the reference list"""
    a = ex.term(lst, 'R')
    arr = ex.H(st, 'La.R')[a]
    n = ex.H(st, 'Ll')[a]
    j = z3.FreshConst(IntS, 'pj')
    k = z3.FreshConst(IntS, 'pk')
    return SV(z3.ForAll([j, k], z3.Implies(z3.And(0 <= j, j < k, k < n), arr[j] != arr[k])), BOOL)


@specfunc('elist_above')
def elist_above(ex, st, el, x):
    """every list / dict the ElementList owns (children list, the by-name and traversal index dicts and their lists) was
    allocated after the object x (addresses are allocation-ordered): none of them is x"""
    a = ex.term(el, 'R')
    xt = ex.term(x, 'R')
    lst = ex.H(st, ex.world.field_key('ElementList', 'list'))[a]
    idx = ex.H(st, ex.world.field_key('ElementList', 'indexes'))[a]
    tidx = ex.H(st, ex.world.field_key('ElementList', 'traversal_indexes'))[a]
    k = z3.FreshConst(StrS, 'ak')
    dd, dv = ex.H(st, 'Dd'), ex.H(st, 'Dv.R')
    return SV(z3.And(lst > xt, idx > xt, tidx > xt,
                     z3.ForAll([k], z3.Implies(dd[idx][k], dv[idx][k] > xt)),
                     z3.ForAll([k], z3.Implies(dd[tidx][k], dv[tidx][k] > xt))), BOOL)


@specfunc('is_new')
def is_new(ex, st, x):
    """x was allocated after the function under verification was entered (usable in loop invariants, where `is_fresh`
    would mean "since the loop was entered")"""
    pre = getattr(ex, '_verify_pre', None)
    if pre is None:
        raise OutOfReach('is_new outside a function verification')
    return SV(ex.term(x, 'R') >= ex.H(pre, 'next'), BOOL)


@specfunc('iter_list:ElementList')
def iter_list_elementlist(ex, st, obj):
    """iterating an ElementList (a MutableSequence: __len__ / __getitem__ over self.list, both under contract) walks its
    children list"""
    return ex.read_field(st, obj, 'list')
