"""K6 - the decoder loops (C02 / C03 / C17 / C18): what each parse_* function hands to the next one down.
The per-item parsers are external to each contract (assumed interfaces: a fresh element or an exception); the obligations
are at the CALL SITES (`call_asserts`): the name built from the position, and the version / validation level / encoding
characters / reference that are passed on."""
from contracts import contract

_RAISES = {'Exception': {}}      # (the per-item parsers may fail in any way: one outcome is enough at the call sites)

contract(
    'hl7apy.parser:parse_field',
    sig={'text': 'str', 'name': 'str?', 'version': 'str?', 'encoding_chars': 'dict[str]?', 'validation_level': 'any',
         'reference': 'any', 'force_varies': 'bool'},
    returns='Element',
    ensures=[('fresh', 'is_fresh(result)'), ('detached', 'result._parent is None and result._traversal_parent is None')],
    raises=_RAISES, modifies=[], allocates=True, interface=True, verify=False,
    notes='assumed at the call sites of parse_fields (a fresh, detached Field or an exception)',
)

def _items_ok(lst, fresh='is_new'):
    # (is_new: allocated since the function under verification was entered - for loop invariants; is_fresh: allocated during
    #  the call - for postconditions, which are also read at call sites)
    return ('all(list_at({0}, k)._parent is None and list_at({0}, k)._traversal_parent is None and {1}(list_at({0}, k)) '
            'for k in range(len({0})))').format(lst, fresh)


_V = 'version if version is not None else global_("hl7apy:_DEFAULT_VERSION")'
_L = 'validation_level if validation_level is not None else global_("hl7apy:_DEFAULT_VALIDATION_LEVEL")'
_FIELD_SITE = [
    # C02: the field parsed from the (index+1)-th piece of the segment text is named <prefix>_<index+1>
    ('name_is_position', 'implies(name_prefix is not None, arg(1) == fmt("{0}_{1}", name_prefix, index + 1)) and '
                         'implies(name_prefix is None, arg(1) is None)'),
    # C17: what the caller gave explicitly is what is passed on; a default is used only for a missing argument
    ('version_passed_on', 'arg(2) == old(%s)' % _V),
    ('level_passed_on', 'arg(4) == old(%s)' % _L),
    ('encoding_chars_passed_on', 'implies(old(encoding_chars) is not None, arg(3) is old(encoding_chars))'),
    # C18: the reference handed to the field parser is the profile's entry for that name, when there is one
    ('reference_passed_on', 'implies(old(references) is not None and name_prefix is not None and '
                            'dhas(old(references), fmt("{0}_{1}", name_prefix, index + 1)) and '
                            'dhas(dget(old(references), fmt("{0}_{1}", name_prefix, index + 1)), "ref"), '
                            'arg(5) == dget_any(dget(old(references), fmt("{0}_{1}", name_prefix, index + 1)), "ref"))'),
]
contract(
    'hl7apy.parser:parse_fields',
    sig={'text': 'str', 'name_prefix': 'str?', 'version': 'str?', 'encoding_chars': 'dict[str]?', 'validation_level': 'any',
         'references': 'dict[dict[any]]?', 'force_varies': 'bool'},
    returns='list[Element]',
    requires=['implies(encoding_chars is not None, dhas(encoding_chars, "FIELD") and dhas(encoding_chars, "REPETITION"))'],
    ensures=[('fresh', 'is_fresh(result)'),
             # what `segment.children = parse_fields(...)` needs: the fields are new, detached and pairwise different objects
             ('items_detached', _items_ok('result', 'is_fresh')),
             ('items_distinct', 'pairwise_distinct(result)')],
    raises=dict(_RAISES, UnsupportedVersion={}, InvalidEncodingChars={}, UnknownValidationLevel={}),
    modifies=[], allocates=True,
    loops={0: {'header': 'for (index, field) in enumerate(splitted_fields)',
               'inv': [('items_detached', _items_ok('fields')), ('items_distinct', 'pairwise_distinct(fields)'),
                       ('list_is_new', 'is_new(fields)')],
               'modifies': ['fields[]'], 'allocates': True},
           1: {'header': 'for rep in field.split(repetition_sep)',
               'inv': [('items_detached', _items_ok('fields')), ('items_distinct', 'pairwise_distinct(fields)'),
                       ('list_is_new', 'is_new(fields)')],
               'modifies': ['fields[]'], 'allocates': True}},
    local_types={'fields': 'list[Element]'},
    call_asserts={'parse_field': _FIELD_SITE},
    properties=['C02', 'C17', 'C18', 'C03'],
)

contract(
    'hl7apy.parser:parse_component',
    sig={'text': 'str', 'name': 'str?', 'datatype': 'str?', 'version': 'str?', 'encoding_chars': 'dict[str]?',
         'validation_level': 'any', 'reference': 'any'},
    returns='Element', ensures=[('fresh', 'is_fresh(result)'), ('detached', 'result._parent is None and result._traversal_parent is None')],
    raises=_RAISES, modifies=[], allocates=True, interface=True, verify=False,
    notes='assumed at the call site of parse_components',
)
contract(
    'hl7apy.parser:parse_subcomponent',
    sig={'text': 'str', 'name': 'str?', 'datatype': 'str?', 'version': 'str?', 'validation_level': 'any', 'reference': 'any'},
    returns='Element', ensures=[('fresh', 'is_fresh(result)'), ('detached', 'result._parent is None and result._traversal_parent is None')],
    raises=_RAISES, modifies=[], allocates=True, interface=True, verify=False,
    notes='assumed at the call site of parse_subcomponents',
)

_COMP_SITE = [
    # C02: the component parsed from the (index+1)-th piece is <datatype>_<index+1> (VARIES_<index+1> for an untyped field,
    # unnamed for a base datatype)
    ('name_is_position', 'arg(1) is None or arg(1) == fmt("{0}_{1}", field_datatype, index + 1) or '
                         'arg(1) == fmt("VARIES_{0}", index + 1)'),
    ('typed_field_names_by_datatype', 'implies(arg(2) is None and field_datatype is not None and field_datatype != "varies", '
                                      'arg(1) == fmt("{0}_{1}", field_datatype, index + 1))'),
    ('version_passed_on', 'arg(3) == old(%s)' % _V),
    ('level_passed_on', 'arg(5) == old(%s)' % _L),
    ('encoding_chars_passed_on', 'implies(old(encoding_chars) is not None, arg(4) is old(encoding_chars))'),
]
contract(
    'hl7apy.parser:parse_components',
    sig={'text': 'str', 'field_datatype': 'str?', 'version': 'str?', 'encoding_chars': 'dict[str]?', 'validation_level': 'any',
         'references': 'dict[dict[any]]?'},
    returns='list[Element]',
    requires=['implies(encoding_chars is not None, dhas(encoding_chars, "COMPONENT"))'],
    ensures=[('fresh', 'is_fresh(result)'), ('items_detached', _items_ok('result', 'is_fresh')), ('items_distinct', 'pairwise_distinct(result)')],
    raises=dict(_RAISES, UnsupportedVersion={}, InvalidEncodingChars={}, UnknownValidationLevel={}),
    modifies=[], allocates=True,
    loops={0: {'header': 'for (index, component) in enumerate(text.split(component_sep))',
               'inv': [('items_detached', _items_ok('components')), ('items_distinct', 'pairwise_distinct(components)'), ('list_is_new', 'is_new(components)')],
               'modifies': ['components[]'], 'allocates': True}},
    local_types={'components': 'list[Element]'},
    call_asserts={'parse_component': _COMP_SITE},
    properties=['C02', 'C17', 'C18'],
)

_SUB_SITE = [
    ('name_is_position', 'arg(1) is None or arg(1) == fmt("{0}_{1}", component_datatype, index + 1)'),
    ('typed_component_names_by_datatype', 'implies(arg(2) is None, arg(1) == fmt("{0}_{1}", component_datatype, index + 1))'),
    ('version_passed_on', 'arg(3) == old(%s)' % _V),
    ('level_passed_on', 'arg(4) == old(%s)' % _L),
]
contract(
    'hl7apy.parser:parse_subcomponents',
    sig={'text': 'str', 'component_datatype': 'str?', 'version': 'str?', 'encoding_chars': 'dict[str]?', 'validation_level': 'any',
         'references': 'dict[dict[any]]?'},
    returns='list[Element]',
    requires=['implies(encoding_chars is not None, dhas(encoding_chars, "SUBCOMPONENT"))'],
    ensures=[('fresh', 'is_fresh(result)'), ('items_detached', _items_ok('result', 'is_fresh')), ('items_distinct', 'pairwise_distinct(result)')],
    raises=dict(_RAISES, UnsupportedVersion={}, InvalidEncodingChars={}, UnknownValidationLevel={}),
    modifies=[], allocates=True,
    loops={0: {'header': 'for (index, subcomponent) in enumerate(text.split(subcomp_sep))',
               'inv': [('items_detached', _items_ok('subcomponents')), ('items_distinct', 'pairwise_distinct(subcomponents)'), ('list_is_new', 'is_new(subcomponents)')],
               'modifies': ['subcomponents[]'], 'allocates': True}},
    local_types={'subcomponents': 'list[Element]'},
    call_asserts={'parse_subcomponent': _SUB_SITE},
    properties=['C02', 'C17', 'C18'],
)

# ---- parse_segment: the Segment is built with the caller's version / level / reference, its fields are parsed with the same
# and with the segment's own structure, and the parsed fields are attached in order (contract of `x.children = <list>`)
contract(
    'hl7apy.core:Segment.__init__',
    sig={'self': 'Segment', 'name': 'str?', 'parent': 'Element?', 'reference': 'any', 'version': 'str?',
         'validation_level': 'int?', 'traversal_parent': 'Element?'},
    returns='none',
    ensures=[('version', 'implies(version is not None, self.version == version)'),
             ('level', 'implies(validation_level is not None, self.validation_level == validation_level)'),
             ('detached', 'implies(parent is None and traversal_parent is None, self._parent is None and self._traversal_parent is None)')],
    raises={'Exception': {}},
    modifies=['self.*'], allocates=True, interface=True, verify=False,
    notes='assumed where parse_segment builds the segment (Element.__init__, which does the threading, is proved; the rest of '
          'Segment.__init__ reads a dynamically typed table entry - see k4_structure)',
)

_SEG_CTOR_SITE = [
    ('name_is_the_three_letter_id', 'arg(0) == substr(old(text), 0, 3)'),
    ('version_passed_on', 'kwarg("version") == old(%s)' % _V),
    ('level_passed_on', 'kwarg("validation_level") == old(%s)' % _L),
    ('reference_passed_on', 'kwarg("reference") == old(reference)'),
]
_SEG_FIELDS_SITE = [
    ('prefix_is_the_segment_id', 'arg(1) == substr(old(text), 0, 3)'),
    ('version_passed_on', 'arg(2) == old(%s)' % _V),
    ('encoding_chars_passed_on', 'implies(old(encoding_chars) is not None, arg(3) is old(encoding_chars))'),
    ('level_passed_on', 'arg(4) == old(%s)' % _L),
    # C18: the field references come from the structure of the segment just built (the profile's, when one was given)
    ('structure_of_the_segment', 'arg(5) is segment.structure_by_name'),
]
contract(
    'hl7apy.parser:parse_segment',
    sig={'text': 'str', 'version': 'str?', 'encoding_chars': 'dict[str]?', 'validation_level': 'any', 'reference': 'any'},
    returns='Element',
    requires=['implies(encoding_chars is not None, dhas(encoding_chars, "FIELD") and dhas(encoding_chars, "REPETITION"))',
              # the process-wide defaults are complete delimiter sets (set_default_encoding_chars checks them)
              'dhas(global_("hl7apy:_DEFAULT_ENCODING_CHARS"), "FIELD") and dhas(global_("hl7apy:_DEFAULT_ENCODING_CHARS"), "REPETITION") and '
              'dhas(global_("hl7apy:_DEFAULT_ENCODING_CHARS_27"), "FIELD") and dhas(global_("hl7apy:_DEFAULT_ENCODING_CHARS_27"), "REPETITION")'],
    ensures=[('fresh', 'is_fresh(result)')],
    raises={'Exception': {}},
    modifies=None, allocates=True,
    call_asserts={'Segment': _SEG_CTOR_SITE, 'parse_fields': _SEG_FIELDS_SITE},
    properties=['C03', 'C17', 'C18', 'C02'],
)

# ---- parse_component / parse_field: same shape as parse_segment (constructor, the list parser one level down, the attach)
for _cls in ('Component', 'Field', 'SubComponent'):
    contract(
        'hl7apy.core:%s.__init__' % _cls,
        sig=({'self': _cls, 'name': 'str?', 'datatype': 'str?', 'parent': 'Element?', 'reference': 'any', 'version': 'str?',
              'validation_level': 'int?', 'traversal_parent': 'Element?'} if _cls != 'SubComponent' else
             {'self': _cls, 'name': 'str?', 'datatype': 'str?', 'value': 'any', 'parent': 'Element?', 'reference': 'any',
              'version': 'str?', 'validation_level': 'int?', 'traversal_parent': 'Element?'}),
        returns='none',
        ensures=[('version', 'implies(version is not None, self.version == version)'),
                 ('level', 'implies(validation_level is not None, self.validation_level == validation_level)'),
                 ('detached', 'implies(parent is None and traversal_parent is None, self._parent is None and self._traversal_parent is None)'),
                 ('own_children', 'self.children.element is self and sep(self.children)')],
        raises={'Exception': {}, 'InvalidName': {}},
        modifies=['self.*'], allocates=True, interface=True, verify=False,
        notes='assumed where the parser builds the element (Element.__init__, which does the threading, is proved)',
    )

contract(
    'hl7apy.core:Element.__setattr__[datatype]',
    sig={'self': 'Element', 'name': '="datatype"', 'value': 'str?'},
    returns='none',
    ensures=[('children_kept', 'self.children is old(self.children) and self._parent is old(self._parent) and '
                               'self._traversal_parent is old(self._traversal_parent)')],
    raises={'Exception': {}},
    modifies=['self.*'], allocates=['Dd', 'Dv.V', 'Dv.R', 'La.S', 'La.V', 'Ll'], interface=True, verify=False,
    notes='the datatype setter (_set_datatype rebuilds the structure maps: new dicts and name lists): assumed not to touch '
          'the links of any element',
)

_CMP_CTOR_SITE = [
    ('version_passed_on', 'kwarg("version") == old(%s)' % _V),
    ('level_passed_on', 'kwarg("validation_level") == old(%s)' % _L),
    ('reference_passed_on', 'kwarg("reference") == old(reference)'),
]
_CMP_SUBS_SITE = [
    ('datatype_of_the_component', 'arg(1) == component._datatype'),
    ('version_passed_on', 'arg(2) == old(%s)' % _V),
    ('encoding_chars_passed_on', 'implies(old(encoding_chars) is not None, arg(3) is old(encoding_chars))'),
    ('level_passed_on', 'arg(4) == old(%s)' % _L),
    ('structure_of_the_component', 'arg(5) is component.structure_by_name'),
]
_DEFAULTS_OK = ' and '.join('dhas(global_("hl7apy:%s"), "%s")' % (g, k) for g in ('_DEFAULT_ENCODING_CHARS', '_DEFAULT_ENCODING_CHARS_27')
                            for k in ('FIELD', 'REPETITION', 'COMPONENT', 'SUBCOMPONENT'))
contract(
    'hl7apy.parser:parse_component[impl]',
    sig={'text': 'str', 'name': 'str?', 'datatype': 'str?', 'version': 'str?', 'encoding_chars': 'dict[str]?',
         'validation_level': 'any', 'reference': 'any'},
    returns='Element',
    requires=['implies(encoding_chars is not None, dhas(encoding_chars, "SUBCOMPONENT"))', _DEFAULTS_OK],
    ensures=[('fresh', 'is_fresh(result)')],
    raises={'Exception': {}},
    modifies=None, allocates=True,
    call_asserts={'Component': _CMP_CTOR_SITE, 'parse_subcomponents': _CMP_SUBS_SITE},
    # PARKED (not run): all call-site obligations discharge, but the precondition of `component.children = <list>` (every item
    # detached) stays undecided behind the quantified frames of three assumed calls in a row (constructor, list parser,
    # datatype setter); parse_segment, whose body has one call less, is proved
    properties=[],
)

_FLD_CTOR_SITE = [
    ('version_passed_on', 'kwarg("version") == old(%s)' % _V),
    ('level_passed_on', 'kwarg("validation_level") == old(%s)' % _L),
]
_FLD_CMPS_SITE = [
    ('datatype_of_the_field', 'arg(1) == field._datatype'),
    ('version_passed_on', 'arg(2) == old(%s)' % _V),
    ('encoding_chars_passed_on', 'implies(old(encoding_chars) is not None, arg(3) is old(encoding_chars))'),
    ('level_passed_on', 'arg(4) == old(%s)' % _L),
    ('structure_of_the_field', 'arg(5) is field.structure_by_name'),
]
contract(
    'hl7apy.parser:parse_field[impl]',
    sig={'text': 'str', 'name': 'str?', 'version': 'str?', 'encoding_chars': 'dict[str]?', 'validation_level': 'any',
         'reference': 'any', 'force_varies': 'bool'},
    returns='Element',
    requires=['implies(encoding_chars is not None, dhas(encoding_chars, "COMPONENT"))', _DEFAULTS_OK],
    ensures=[('fresh', 'is_fresh(result)')],
    raises={'Exception': {}},
    modifies=None, allocates=True,
    call_asserts={'Field': _FLD_CTOR_SITE, 'parse_components': _FLD_CMPS_SITE},
    properties=[],      # PARKED for the same reason as parse_component[impl]
)
