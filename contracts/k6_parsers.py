"""K6 - the decoder loops (C02 / C03 / C17 / C18): what each parse_* function hands to the next one down.
The per-item parsers are external to each contract (assumed interfaces: a fresh element or an exception); the obligations
are at the CALL SITES (`call_asserts`): the name built from the position, and the version / validation level / encoding
characters / reference that are passed on."""
from contracts import contract

_RAISES = {'Exception': {}}      # (the per-item parsers may fail in any way: one outcome is enough at the call sites)

contract(
    'hl7apy.parser:parse_field',
    sig={'text': 'str', 'name': 'str?', 'version': 'str?', 'encoding_chars': 'dict[str]?', 'validation_level': 'any',
         'reference': 'any', 'force_varies': 'bool'},
    returns='Element',
    ensures=[('fresh', 'is_fresh(result)')],
    raises=_RAISES, modifies=[], allocates=True, interface=True, verify=False,
    notes='assumed at the call sites of parse_fields (a fresh Field or an exception)',
)

_V = 'version if version is not None else global_("hl7apy:_DEFAULT_VERSION")'
_L = 'validation_level if validation_level is not None else global_("hl7apy:_DEFAULT_VALIDATION_LEVEL")'
_FIELD_SITE = [
    # C02: the field parsed from the (index+1)-th piece of the segment text is named <prefix>_<index+1>
    ('name_is_position', 'implies(name_prefix is not None, arg(1) == fmt("{0}_{1}", name_prefix, index + 1)) and '
                         'implies(name_prefix is None, arg(1) is None)'),
    # C17: what the caller gave explicitly is what is passed on; a default is used only for a missing argument
    ('version_passed_on', 'arg(2) == old(%s)' % _V),
    ('level_passed_on', 'arg(4) == old(%s)' % _L),
    ('encoding_chars_passed_on', 'implies(old(encoding_chars) is not None, arg(3) is old(encoding_chars))'),
    # C18: the reference handed to the field parser is the profile's entry for that name, when there is one
    ('reference_passed_on', 'implies(old(references) is not None and name_prefix is not None and '
                            'dhas(old(references), fmt("{0}_{1}", name_prefix, index + 1)) and '
                            'dhas(dget(old(references), fmt("{0}_{1}", name_prefix, index + 1)), "ref"), '
                            'arg(5) == dget_any(dget(old(references), fmt("{0}_{1}", name_prefix, index + 1)), "ref"))'),
]
contract(
    'hl7apy.parser:parse_fields',
    sig={'text': 'str', 'name_prefix': 'str?', 'version': 'str?', 'encoding_chars': 'dict[str]?', 'validation_level': 'any',
         'references': 'dict[dict[any]]?', 'force_varies': 'bool'},
    returns='list[Element]',
    requires=['implies(encoding_chars is not None, dhas(encoding_chars, "FIELD") and dhas(encoding_chars, "REPETITION"))'],
    ensures=[('fresh', 'is_fresh(result)')],
    raises=dict(_RAISES, UnsupportedVersion={}, InvalidEncodingChars={}, UnknownValidationLevel={}),
    modifies=[], allocates=True,
    loops={0: {'header': 'for (index, field) in enumerate(splitted_fields)', 'inv': [], 'modifies': ['fields[]'], 'allocates': True},
           1: {'header': 'for rep in field.split(repetition_sep)', 'inv': [], 'modifies': ['fields[]'], 'allocates': True}},
    local_types={'fields': 'list[Element]'},
    call_asserts={'parse_field': _FIELD_SITE},
    properties=['C02', 'C17', 'C18', 'C03'],
)

contract(
    'hl7apy.parser:parse_component',
    sig={'text': 'str', 'name': 'str?', 'datatype': 'str?', 'version': 'str?', 'encoding_chars': 'dict[str]?',
         'validation_level': 'any', 'reference': 'any'},
    returns='Element', ensures=[('fresh', 'is_fresh(result)')],
    raises=_RAISES, modifies=[], allocates=True, interface=True, verify=False,
    notes='assumed at the call site of parse_components',
)
contract(
    'hl7apy.parser:parse_subcomponent',
    sig={'text': 'str', 'name': 'str?', 'datatype': 'str?', 'version': 'str?', 'validation_level': 'any', 'reference': 'any'},
    returns='Element', ensures=[('fresh', 'is_fresh(result)')],
    raises=_RAISES, modifies=[], allocates=True, interface=True, verify=False,
    notes='assumed at the call site of parse_subcomponents',
)

_COMP_SITE = [
    # C02: the component parsed from the (index+1)-th piece is <datatype>_<index+1> (VARIES_<index+1> for an untyped field,
    # unnamed for a base datatype)
    ('name_is_position', 'arg(1) is None or arg(1) == fmt("{0}_{1}", field_datatype, index + 1) or '
                         'arg(1) == fmt("VARIES_{0}", index + 1)'),
    ('typed_field_names_by_datatype', 'implies(arg(2) is None and field_datatype is not None and field_datatype != "varies", '
                                      'arg(1) == fmt("{0}_{1}", field_datatype, index + 1))'),
    ('version_passed_on', 'arg(3) == old(%s)' % _V),
    ('level_passed_on', 'arg(5) == old(%s)' % _L),
    ('encoding_chars_passed_on', 'implies(old(encoding_chars) is not None, arg(4) is old(encoding_chars))'),
]
contract(
    'hl7apy.parser:parse_components',
    sig={'text': 'str', 'field_datatype': 'str?', 'version': 'str?', 'encoding_chars': 'dict[str]?', 'validation_level': 'any',
         'references': 'dict[dict[any]]?'},
    returns='list[Element]',
    requires=['implies(encoding_chars is not None, dhas(encoding_chars, "COMPONENT"))'],
    ensures=[('fresh', 'is_fresh(result)')],
    raises=dict(_RAISES, UnsupportedVersion={}, InvalidEncodingChars={}, UnknownValidationLevel={}),
    modifies=[], allocates=True,
    loops={0: {'header': 'for (index, component) in enumerate(text.split(component_sep))', 'inv': [],
               'modifies': ['components[]'], 'allocates': True}},
    local_types={'components': 'list[Element]'},
    call_asserts={'parse_component': _COMP_SITE},
    properties=['C02', 'C17', 'C18'],
)

_SUB_SITE = [
    ('name_is_position', 'arg(1) is None or arg(1) == fmt("{0}_{1}", component_datatype, index + 1)'),
    ('typed_component_names_by_datatype', 'implies(arg(2) is None, arg(1) == fmt("{0}_{1}", component_datatype, index + 1))'),
    ('version_passed_on', 'arg(3) == old(%s)' % _V),
    ('level_passed_on', 'arg(4) == old(%s)' % _L),
]
contract(
    'hl7apy.parser:parse_subcomponents',
    sig={'text': 'str', 'component_datatype': 'str?', 'version': 'str?', 'encoding_chars': 'dict[str]?', 'validation_level': 'any',
         'references': 'dict[dict[any]]?'},
    returns='list[Element]',
    requires=['implies(encoding_chars is not None, dhas(encoding_chars, "SUBCOMPONENT"))'],
    ensures=[('fresh', 'is_fresh(result)')],
    raises=dict(_RAISES, UnsupportedVersion={}, InvalidEncodingChars={}, UnknownValidationLevel={}),
    modifies=[], allocates=True,
    loops={0: {'header': 'for (index, subcomponent) in enumerate(text.split(subcomp_sep))', 'inv': [],
               'modifies': ['subcomponents[]'], 'allocates': True}},
    local_types={'subcomponents': 'list[Element]'},
    call_asserts={'parse_subcomponent': _SUB_SITE},
    properties=['C02', 'C17', 'C18'],
)
