"""K3 - Element: attach path (parent / traversal_parent setters, add), attribute protocol"""
from contracts import contract
from contracts.k2_elementlist import real_attach, guard, ATTACH_RAISES, UNCHANGED_VIEW

# x.parent = p   for any Element subclass (Field routes it through _do_traversal -> Element.__setattr__)
SP = 'value.children'     # the parent's ElementList


def on_parent(clauses):
    return [(n, c.replace('self.element', 'value')) for n, c in clauses]


SET_PARENT_ENSURES = [
    ('parent_set', 'self._parent is value'),
    ('traversal_cleared', 'implies(value is not None, self._traversal_parent is None)'),
    ('none_only_unlinks', 'implies(value is None, self._traversal_parent is old(self._traversal_parent))'),
] + guard('value is not None', real_attach(SP, 'self'), 'attached')

SET_PARENT_MODIFIES = ['self._parent', 'self._traversal_parent', 'value.children.list[]', 'value.children.indexes{}',
                       'idx_list(value.children, self.name)[]', 'value.children.traversal_indexes{}',
                       'tidx_list(value.children, self.name)[]', 'field Segment._last_child_index']

SET_PARENT_RAISES = {
    # a rejected attach has written nothing but (possibly) the child's own link fields
    n: {'ensures': [('view_unchanged', 'list_unchanged(value.children.list) and dict_unchanged(value.children.indexes)')],
        'modifies': ['self._parent', 'self._traversal_parent'],
        'when': 'value is not None'}
    for n in ('ChildNotValid', 'ChildNotFound', 'MaxChildLimitReached', 'OperationNotAllowed')
}

contract(
    'hl7apy.core:Element.__setattr__[parent]',
    sig={'self': 'Element', 'name': '="parent"', 'value': 'Element?'},
    returns='none',
    interface=True,
    requires=['implies(value is not None, sep(value.children))'],
    ensures=SET_PARENT_ENSURES,
    raises=SET_PARENT_RAISES,
    modifies=SET_PARENT_MODIFIES,
    allocates=['La.R', 'Ll'],
    properties=['C09', 'C10', 'C12'],
)
