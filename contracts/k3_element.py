"""K3 - Element: attach path (parent / traversal_parent setters, add), attribute protocol"""
from contracts import contract
from contracts.k2_elementlist import real_attach, guard, ATTACH_RAISES, UNCHANGED_VIEW

# x.parent = p   for any Element subclass (Field routes it through _do_traversal -> Element.__setattr__)
SP = 'value.children'     # the parent's ElementList


def on_parent(clauses):
    return [(n, c.replace('self.element', 'value')) for n, c in clauses]


SET_PARENT_ENSURES = [
    ('parent_set', 'self._parent is value'),
    ('traversal_cleared', 'implies(value is not None, self._traversal_parent is None)'),
    ('none_only_unlinks', 'implies(value is None, self._traversal_parent is old(self._traversal_parent))'),
    ('segment_last_index', 'implies(value is not None, seg_last_ok(value, self))'),
] + guard('value is not None', real_attach(SP, 'self'), 'attached')

# (x.parent = None only unlinks: nothing on any parent's side is written)
SET_PARENT_MODIFIES = ['self._parent', 'self._traversal_parent'] + ['value is not None ? ' + m for m in (
    'value.children.list[]', 'value.children.indexes{}', 'idx_list(value.children, self.name)[]',
    'value.children.traversal_indexes{}', 'tidx_list(value.children, self.name)[]', 'field Segment._last_child_index')]

SET_PARENT_RAISES = {
    # a rejected attach has written nothing but (possibly) the child's own link fields
    n: {'ensures': [('view_unchanged', 'list_unchanged(value.children.list) and dict_unchanged(value.children.indexes)'),
                    # C12: a rejected child is not left half-attached
                    ('no_half_attach', 'self._parent is old(self._parent) and '
                                       'self._traversal_parent is old(self._traversal_parent)')],
        'modifies': ['self._parent', 'self._traversal_parent'],
        'when': 'value is not None'}
    for n in ('ChildNotValid', 'ChildNotFound', 'MaxChildLimitReached', 'OperationNotAllowed')
}

contract(
    'hl7apy.core:Element.__setattr__[parent]',
    sig={'self': 'Element', 'name': '="parent"', 'value': 'Element?'},
    returns='none',
    interface=True,
    exact_self=True,
    requires=['implies(value is not None, sep(value.children) and value.children.element is value)'],
    ensures=SET_PARENT_ENSURES,
    raises=SET_PARENT_RAISES,
    modifies=SET_PARENT_MODIFIES,
    allocates=['La.R', 'Ll'],
    properties=['C09', 'C10', 'C12'],
)

# Element.add(obj): interface contract = ElementList.append on self.children (+ class-specific guards that raise,
# + Segment's open-ended index bookkeeping)
from contracts.k2_elementlist import appended, removed_first_of

ADD_A = 'old(obj._parent) is self'
ADD_B = 'old(obj._parent) is not self and old(obj._traversal_parent) is self'
ADD_C = 'old(obj._parent) is not self and old(obj._traversal_parent) is not self'

ADD_UNCHANGED_VIEW = ('list_unchanged(self.children.list) and dict_unchanged(self.children.indexes) and '
                      'idx_len(self.children, obj.name) == old(idx_len(self.children, obj.name)) and '
                      'implies(old(idx_has(self.children, obj.name)), list_unchanged(old(idx_list(self.children, obj.name))))')
ADD_TRAV_APPENDED = ('tidx_has(self.children, obj.name) and ' +
                     appended(lambda i: 'tidx_item(self.children, obj.name, %s)' % i,
                              'tidx_len(self.children, obj.name)', 'obj') +
                     ' and dict_same_except(self.children.traversal_indexes, obj.name) and ' + ADD_UNCHANGED_VIEW)

ADD_ENSURES = (
    guard('(%s) or (%s)' % (ADD_A, ADD_C), real_attach('self.children', 'obj'), 'real') +
    [('real.links', 'implies((%s) or (%s), obj._parent is self)' % (ADD_A, ADD_C)),
     ('fresh.traversal_cleared', 'implies(%s, obj._traversal_parent is None)' % ADD_C),
     ('linked.links_kept', 'implies(%s, obj._traversal_parent is old(obj._traversal_parent))' % ADD_A),
     ('traversal.only_traversal_index', 'implies(%s, %s)' % (ADD_B, ADD_TRAV_APPENDED)),
     ('traversal.links_kept', 'implies(%s, obj._parent is old(obj._parent) and obj._traversal_parent is self)' % ADD_B),
     ('segment_last_index', 'seg_last_ok(self, obj)')])

ADD_MODIFIES = ['self.children.list[]', 'self.children.indexes{}', 'idx_list(self.children, obj.name)[]',
                'self.children.traversal_indexes{}', 'tidx_list(self.children, obj.name)[]', 'obj._parent',
                'obj._traversal_parent', 'field Segment._last_child_index']

ADD_RAISES = {
    n: {'ensures': [('view_unchanged', ADD_UNCHANGED_VIEW), ('no_half_attach', 'obj._parent is old(obj._parent)')],
        'modifies': ['obj._parent', 'obj._traversal_parent']}
    for n in ('ChildNotValid', 'ChildNotFound', 'MaxChildLimitReached', 'OperationNotAllowed')
}

contract(
    'hl7apy.core:Element.add',
    sig={'self': 'Element', 'obj': 'Element'},
    returns='none',
    interface=True, verify=False,
    requires=['sep(self.children)', 'self.children.element is self'],
    ensures=ADD_ENSURES,
    raises=ADD_RAISES,
    modifies=ADD_MODIFIES,
    allocates=['La.R', 'Ll'],
    properties=['C09', 'C10', 'C11', 'C12'],
)

# the temporary (traversal) link: x.traversal_parent = p
contract(
    'hl7apy.core:Element.__setattr__[traversal_parent]',
    sig={'self': 'Element', 'name': '="traversal_parent"', 'value': 'Element?'},
    returns='none',
    interface=True,
    exact_self=True,
    requires=['implies(value is not None, sep(value.children) and value.children.element is value)',
              # call sites: the element has no real parent when it is given a temporary one
              'implies(value is not None, self._parent is None)'],
    ensures=[
        ('link_set', 'self._traversal_parent is value'),
        ('parent_kept', 'self._parent is old(self._parent)'),
        # C11: only the traversal index of the temporary parent learns about the element
        ('only_traversal_index', 'implies(value is not None, '
         'tidx_has(value.children, self.name) and ' +
         appended(lambda i: 'tidx_item(value.children, self.name, %s)' % i, 'tidx_len(value.children, self.name)', 'self') +
         ' and dict_same_except(value.children.traversal_indexes, self.name) and '
         'list_unchanged(value.children.list) and dict_unchanged(value.children.indexes))'),
        ('segment_last_index', 'implies(value is not None, seg_last_ok(value, self))'),
    ],
    raises={n: {'when': 'value is not None'} for n in ('ChildNotValid', 'ChildNotFound', 'MaxChildLimitReached', 'OperationNotAllowed')},
    modifies=['self._traversal_parent', 'value is not None ? value.children.traversal_indexes{}',
              'value is not None ? tidx_list(value.children, self.name)[]',
              'value is not None ? field Segment._last_child_index'],
    allocates=['La.R', 'Ll'],
    properties=['C10', 'C11'],
)

# ---- the overrides of add(), each proved against the interface contract above (refinement by restating it)
contract('hl7apy.core:Element.add[impl]', sig={'self': 'Element', 'obj': 'Element'}, returns='none', exact_self=True,
         requires=['sep(self.children)', 'self.children.element is self'], ensures=ADD_ENSURES, raises=ADD_RAISES,
         modifies=ADD_MODIFIES, allocates=['La.R', 'Ll'], properties=['C09', 'C10', 'C11', 'C12'])

contract('hl7apy.core:Segment.add', sig={'self': 'Segment', 'obj': 'Element'}, returns='none', exact_self=True,
         requires=['sep(self.children)', 'self.children.element is self',
                   # Segment.add parses the field number out of the name: <SEG>_<n>, three-letter segment ids
                   'implies(obj.name is not None and strlen(obj.name) > 0 and self.allow_infinite_children, int_ok(substr_from(obj.name, 4)))'],
         ensures=[c for c in ADD_ENSURES if c[0] != 'segment_last_index'] + [
             ('last_index', 'implies(obj.name is not None and strlen(obj.name) > 0 and self.allow_infinite_children, '
                            'self._last_child_index == (int_val(substr_from(obj.name, 4)) '
                            'if int_val(substr_from(obj.name, 4)) > old(self._last_child_index) else old(self._last_child_index)))'),
             ('last_index_kept', 'implies(not (obj.name is not None and strlen(obj.name) > 0 and self.allow_infinite_children), '
                                 'self._last_child_index == old(self._last_child_index))')],
         raises=ADD_RAISES, modifies=ADD_MODIFIES[:-1] + ['self._last_child_index'], allocates=['La.R', 'Ll'],
         properties=['C02', 'C09', 'C10', 'C12'])

contract('hl7apy.core:SubComponent.add', sig={'self': 'SubComponent', 'obj': 'any'}, returns='none',
         ensures=[('never_returns', 'False')], raises={'OperationNotAllowed': {}}, raises_only=['OperationNotAllowed'],
         modifies=[], allocates=False, properties=['C10', 'C12'])

# ---- name resolution of the base class (C14): a child is looked up by the UPPER-CASED name in the by-name map first, then
# in the by-long-name map; both maps hold the same entry objects (built by _parse_structure), so every spelling that hits
# designates one entry.  Only when neither map has it is the version's library consulted (external, assumed).
contract(
    'hl7apy:find_reference',
    sig={'name': 'str', 'element_types': 'any', 'version': 'str'},
    returns='dict[any]?',
    raises={'ChildNotFound': {}, 'UnsupportedVersion': {}},
    modifies=[], allocates=True,
    interface=True, verify=False,
    notes='library lookup by name across element types (importlib): external, assumed',
)

_U = 'upper(name)'
contract(
    'hl7apy.core:Element.find_child_reference[impl]',
    sig={'self': 'Element', 'name': 'str'},
    returns='dict[any]?',
    requires=['implies(self.structure_by_name is not None, self.structure_by_longname is not None)'],
    ensures=[
        ('by_name_first', 'implies(self.structure_by_name is not None and dhas(self.structure_by_name, %s) and '
                          'nonempty_dict(dget_ref(self.structure_by_name, %s)), '
                          'result is dget_ref(self.structure_by_name, %s))' % (_U, _U, _U)),
        ('then_by_long_name', 'implies(self.structure_by_name is not None and not dhas(self.structure_by_name, %s) and '
                              'dhas(self.structure_by_longname, %s) and nonempty_dict(dget_ref(self.structure_by_longname, %s)), '
                              'result is dget_ref(self.structure_by_longname, %s))' % (_U, _U, _U, _U)),
    ],
    raises={'ChildNotValid': {'when': 'self.validation_level == 1'}, 'ChildNotFound': {}, 'UnsupportedVersion': {}},
    raises_only=['ChildNotValid', 'ChildNotFound', 'UnsupportedVersion'],
    modifies=[], allocates=True,
    properties=['C14'],
)

_FCR_ENSURES = [
    ('by_name_first', 'implies(self.structure_by_name is not None and dhas(self.structure_by_name, %s) and '
                      'nonempty_dict(dget_ref(self.structure_by_name, %s)), '
                      'result is dget_ref(self.structure_by_name, %s))' % (_U, _U, _U)),
    ('then_by_long_name', 'implies(self.structure_by_name is not None and not dhas(self.structure_by_name, %s) and '
                          'dhas(self.structure_by_longname, %s) and nonempty_dict(dget_ref(self.structure_by_longname, %s)), '
                          'result is dget_ref(self.structure_by_longname, %s))' % (_U, _U, _U, _U)),
]
for _cls, _req in (('SupportComplexDataType', []), ('Segment', ['self.structure_by_name is not None']), ('Group', []), ('Message', [])):
    contract(
        'hl7apy.core:%s.find_child_reference' % _cls if _cls != 'Segment' else 'hl7apy.core:Segment.find_child_reference',
        sig={'self': _cls, 'name': 'str'},
        returns='dict[any]?',
        requires=['implies(self.structure_by_name is not None, self.structure_by_longname is not None)'] + _req,
        ensures=list(_FCR_ENSURES),
        raises={'ChildNotValid': {}, 'ChildNotFound': {}, 'UnsupportedVersion': {}},
        raises_only=['ChildNotValid', 'ChildNotFound', 'UnsupportedVersion'],
        modifies=[], allocates=True,
        exact_self=True,
        properties=['C14'],
        notes='the override restates the lookup order of the base class; what it adds (Z-names, open-ended segments, strictness) '
              'only concerns names that neither map holds',
    )

# ---- is_unknown(): three one-line definitions, one interface
contract('hl7apy.core:Element.is_unknown', sig={'self': 'Element'}, returns='bool',
         ensures=[('answer', 'result == is_unknown_of(self)')], raises={}, raises_only=[], modifies=[],
         interface=True, verify=False, properties=['C04'],
         notes='interface: proved for each of the three definitions under the [impl] keys below')
for _cls, _guard in (('Element', 'not is_varies_class(self)'), ('SupportComplexDataType', 'is_varies_class(self)'),
                     ('CanBeVaries', 'is_varies_class(self)')):
    contract('hl7apy.core:%s.is_unknown[impl]' % _cls, sig={'self': 'SubComponent' if _cls == 'CanBeVaries' else _cls}, returns='bool',
             requires=[_guard],
             ensures=[('answer', 'result == is_unknown_of(self)')], raises={}, raises_only=[], modifies=[],
             exact_self=True, properties=['C04'])

contract('hl7apy.core:Element.is_z_element', sig={'self': 'Element'}, returns='bool',
         raises={}, raises_only=[], modifies=[], interface=True, verify=False, properties=['C04'],
         notes='interface (pure, total): proved for the four definitions below (Element[impl], Segment, Field, Message); '
               'Segment.is_z_element needs a named segment, which Segment.__init__ guarantees (it raises on name=None)')

# ---- Field.add / Component.add: the interface contract of Element.add, now proved for these two overrides as well (they
# only add a guard that raises MaxChildLimitReached before delegating to Element.add)
contract('hl7apy.core:is_base_datatype', sig={'datatype': 'str?', 'version': 'str?'}, returns='bool',
         raises={'UnsupportedVersion': {}}, raises_only=['UnsupportedVersion'], modifies=[], interface=True, verify=False,
         notes='lib.is_base_datatype through importlib: external, assumed pure')
for _cls in ('Field', 'Component'):
    # (Component.add reads obj.datatype: verified for the objects it is meant for, SubComponents; any other element goes
    #  through __getattr__ and ends in ChildNotValid - outside this contract, covered by the interface's raises)
    contract('hl7apy.core:%s.add' % _cls, sig={'self': _cls, 'obj': 'Element' if _cls == 'Field' else 'SubComponent'}, returns='none', exact_self=True,
             requires=['sep(self.children)', 'self.children.element is self'],
             ensures=ADD_ENSURES,
             raises=dict(ADD_RAISES, UnsupportedVersion={'ensures': ADD_RAISES['ChildNotValid']['ensures'], 'modifies': []}),
             # C17 / C05: the base-datatype question is asked for the element's own version, not the process default
             call_asserts={'is_base_datatype': [('own_version', 'arg(1) == self.version')]},
             modifies=ADD_MODIFIES, allocates=['La.R', 'Ll'], properties=['C09', 'C10', 'C12', 'C05', 'C17'])

# ---- _is_valid_child: the interface says "pure, raises only ChildNotFound / ChildNotValid"; the definitions are run
# against exactly that (frame + raises_only)
for _cls in ('Element', 'Segment', 'Group', 'SupportComplexDataType'):
    contract('hl7apy.core:%s._is_valid_child%s' % (_cls, '[impl]' if _cls == 'Element' else ''),
             sig={'self': _cls if _cls != 'SupportComplexDataType' else 'Field',
                  'child': 'Element' if _cls != 'SupportComplexDataType' else 'Component'}, returns='bool', exact_self=True,
             requires=['implies(self.structure_by_name is not None, self.structure_by_longname is not None)'] +
                      (['self.name is not None', 'self.structure_by_name is not None'] if _cls == 'Segment' else []),
             ensures=[], raises={'ChildNotFound': {}, 'ChildNotValid': {}, 'UnsupportedVersion': {}},
             raises_only=['ChildNotFound', 'ChildNotValid', 'UnsupportedVersion'],
             modifies=[], allocates=True, properties=['C05', 'C11'],
             # (372 paths, 2 240 obligations, about 7 minutes of VC generation: thorough tier only)
             thorough_only=(_cls == 'SupportComplexDataType'))

# ---- x.children = <list of freshly parsed, detached elements>  (what every parse_* function ends with; C03: nothing is
# dropped, nothing is reordered): Element.__setattr__ builds a new ElementList and add()s the items one by one
_DETACHED = 'all(list_at(value, k)._parent is None and list_at(value, k)._traversal_parent is None for k in range(%s))'
_DISTINCT = 'all(implies(j != k, list_at(value, j) is not list_at(value, k)) for j in range(len(value)) for k in range(len(value)))'
contract(
    'hl7apy.core:Element.__setattr__[children/list]',
    sig={'self': 'Element', 'name': '="children"', 'value': 'list[Element]'},
    returns='none',
    requires=[_DETACHED % 'len(value)',
              'all(list_at(value, k) is not self for k in range(len(value)))',
              'pairwise_distinct(value)'],
    ensures=[
        ('own_list', 'self.children.element is self'),
        ('every_item_attached_in_order', 'len(self.children.list) == len(value) and '
                                         'all(list_at(self.children.list, k) is list_at(value, k) for k in range(len(value)))'),
    ],
    raises={n: {} for n in ('ChildNotValid', 'ChildNotFound', 'MaxChildLimitReached', 'OperationNotAllowed')},
    modifies=None,
    allocates=True,
    # (inside the body `value` is rebound to the new ElementList: the invariants speak about `children`, the list given)
    loops={0: {'header': 'for c in children',
               'inv': [('own_list', 'self.children.element is self and sep(self.children)'),
                       ('attached_so_far', 'len(self.children.list) == _i and '
                                           'all(list_at(self.children.list, k) is list_at(children, k) for k in range(_i))'),
                       ('input_untouched', 'len(children) == old(len(children)) and '
                                           'all(list_at(children, k) is old(list_at(children, k)) for k in range(len(children)))'),
                       ('rest_still_detached', 'all(implies(k >= _i, list_at(children, k)._parent is None and '
                                               'list_at(children, k)._traversal_parent is None) for k in range(len(children)))'),
                       ('still_distinct', 'pairwise_distinct(children)'),
                       ('not_self', 'all(list_at(children, k) is not self for k in range(len(children)))'),
                       # the new container's own lists are younger than the list being copied from: add() never writes it
                       ('own_lists_are_new', 'elist_above(self.children, children)')],
               'vars': {}}},
    exact_self=True,
    properties=['C03', 'C09'],
)

# ---- the Z-name predicates and the four is_z_element definitions (previously one assumed interface contract):
# total (no exception on any str), pure (modifies=[]: validate() "is a pure observation", C04) and, where the engine's
# string vocabulary reaches, the answer itself.
contract('hl7apy.core:_valid_z_segment_name', sig={'name': 'str'}, returns='bool',
         ensures=[('three_chars', 'implies(result, strlen(name) == 3)'),
                  ('answer', 'result == (strlen(name) == 3 and substr(upper(name), 0, 1) == "Z")')],
         raises={}, raises_only=[], modifies=[], properties=['C04', 'C03'])
contract('hl7apy.core:_valid_z_field_name', sig={'name': 'str'}, returns='bool',
         ensures=[('z_first', 'implies(result, char_at(name, 0) == "z" or char_at(name, 0) == "Z")'),
                  ('min_len', 'implies(result, strlen(name) >= 5)')],
         raises={}, raises_only=[], modifies=[], properties=['C04'])
contract('hl7apy.core:_valid_z_message_name', sig={'name': 'str?'}, returns='bool',
         ensures=[('none', 'implies(name is None, not result)'),
                  ('shape', 'implies(result, strlen(name) >= 7 and strlen(name) <= 8 and char_at(name, 3) == "_")')],
         raises={}, raises_only=[], modifies=[], properties=['C04', 'C15'])
contract('hl7apy.core:Element.is_z_element[impl]', sig={'self': 'Element'}, returns='bool',
         ensures=[('never', 'not result')], raises={}, raises_only=[], modifies=[], exact_self=True, properties=['C04'])
contract('hl7apy.core:Segment.is_z_element', sig={'self': 'Segment'}, returns='bool', requires=['self.name is not None'],
         ensures=[('answer', 'result == (strlen(self.name) == 3 and substr(upper(self.name), 0, 1) == "Z")')],
         raises={}, raises_only=[], modifies=[], properties=['C04', 'C03'])
contract('hl7apy.core:Field.is_z_element', sig={'self': 'Field'}, returns='bool',
         ensures=[('unnamed', 'implies(self.name is None, not result)'),
                  ('z_first', 'implies(result, char_at(self.name, 0) == "z" or char_at(self.name, 0) == "Z")')],
         raises={}, raises_only=[], modifies=[], properties=['C04'])
contract('hl7apy.core:Message.is_z_element', sig={'self': 'Message'}, returns='bool',
         ensures=[('unnamed', 'implies(self.name is None, not result)'),
                  ('shape', 'implies(result, strlen(self.name) >= 7 and char_at(self.name, 3) == "_")')],
         raises={}, raises_only=[], modifies=[], properties=['C04', 'C15'])

# C14 "in any letter case": the test an element applies to a name handed to it
contract('hl7apy.core:Element.is_named', sig={'self': 'Element', 'name': 'str'}, returns='bool',
         ensures=[('answer', 'result == ((self.name is not None and upper(name) == self.name) or '
                             '(self.long_name is not None and upper(name) == self.long_name))')],
         raises={}, raises_only=[], modifies=[], properties=['C14'])
# (contracts on the one-line property getters _get_parent / _get_traversal_parent were tried and withdrawn: with them
# the getters are no longer inlined at `child.parent` reads and ElementList.append#post.segment_last_index went unknown)

def _all_cls_attrs():
    from hl7apy import core
    out = set()
    for _n in ('Element', 'Field', 'Segment', 'Message', 'Component', 'SubComponent', 'Group'):
        out |= set(getattr(core, _n).cls_attrs)
    return sorted(out)


_ALL_CLS_ATTRS = _all_cls_attrs()

# del x.<name> for a name that is not one of the element's own attributes (C09 "deletion removes exactly the addressed
# one", C14 "for reads, writes and deletes alike"): the first repetition child_at(children, name, 0) leaves the list
contract(
    'hl7apy.core:Element.__delattr__[child]',
    sig={'self': 'Element', 'name': 'str'},
    returns='none',
    # not one of the element's own attribute names (the union of cls_attrs over the Element classes, read from the real
    # classes when the contracts are loaded)
    requires=['sep(self.children)', 'self.children.element is self'] + ['name != "%s"' % _a for _a in _ALL_CLS_ATTRS],
    ensures=[
        ('sep', 'sep(self.children)'),
        ('first_repetition_removed',
         'implies(old(child_at(self.children, name, 0)._traversal_parent) is not self, ' +
         __import__('contracts.k2_elementlist', fromlist=['x']).removed_first_of(
             'self.children.list', 'self.children.list', 'old(child_at(self.children, name, 0))') + ')'),
    ],
    raises={'ValueError': {}, 'ChildNotFound': {}, 'ChildNotValid': {},
            'AttributeError': {'when': 'child_at(self.children, name, 0) is None',
                               'ensures': [('unchanged', 'list_unchanged(self.children.list) and dict_unchanged(self.children.indexes)')]}},
    raises_only=['ValueError', 'ChildNotFound', 'ChildNotValid', 'AttributeError'],
    modifies=None,
    properties=['C09', 'C12', 'C14'],
)

# x.<name> for a name that is not an attribute of the element (only then python calls __getattr__): the by-name view of
# the element's OWN children under the canonical name; reading never writes the children (C11), any spelling of the
# name designates the same view (C14: canon() is a function of the upper-cased name)
contract(
    'hl7apy.core:Element.__getattr__[child]',
    sig={'self': 'Element', 'name': 'str'},
    returns='ElementProxy?',
    requires=['sep(self.children)', 'proxies_ok(self.children)', 'self.children.element is self'] +
             ['name != "%s"' % _a for _a in _ALL_CLS_ATTRS],
    ensures=[
        ('own_view', 'implies(result is not None, result.element_list is self.children and '
                     '(result.element_name == upper(name) if (idx_has(self.children, name) or tidx_has(self.children, name)) '
                     'else result.element_name == upper(canon(self, upper(name)))))'),
        ('children_untouched', 'list_unchanged(self.children.list) and dict_unchanged(self.children.indexes) and '
                               'dict_unchanged(self.children.traversal_indexes)'),
    ],
    raises={'ChildNotFound': {'modifies': []}, 'ChildNotValid': {'modifies': []}},
    raises_only=['ChildNotFound', 'ChildNotValid'],
    modifies=['self.children.proxies{}'],
    allocates=True,
    properties=['C11', 'C14'],
)
