"""Field schema: the static types of instance attributes (heap well-typedness is an ASSUMPTION listed
in every evidence file; the run-time monitors of the bounded tier check it on real objects)."""
from contracts import SCHEMA, GLOBALS

SCHEMA.update({
    # ElementProxy
    'ElementProxy.element_name': 'str',
    'ElementProxy.element_list': 'ElementList',
    # ElementList
    'ElementList.element': 'Element',
    'ElementList.list': 'list[Element]',
    'ElementList.indexes': 'dict[list[Element]]',
    'ElementList.traversal_indexes': 'dict[list[Element]]',
    'ElementList.proxies': 'dict[ElementProxy]',
    # Element
    'Element.name': 'str?',
    'Element.validation_level': 'int',
    'Element.version': 'str',
    'Element.table': 'any',
    'Element.long_name': 'str?',
    'Element.children': 'ElementList',
    'Element.structure_by_name': 'dict[dict[any]]?',
    'Element.structure_by_longname': 'dict[dict[any]]?',
    'Element.ordered_children': 'list[str]?',
    'Element.repetitions': 'dict[tuple[int,int]]',
    'Element._parent': 'Element?',
    'Element._traversal_parent': 'Element?',
    'Element.reference': 'any',
    'Element._datatype': 'str?',
    'Element._value': 'any',
    'Element.max_length': 'any',
    'Segment.allow_infinite_children': 'bool',
    'Segment._last_allowed_child_index': 'int',
    'Segment._last_child_index': 'int',
    'Element.child_classes': 'dict[any]',
    # base datatypes
    'BaseDataType.value': 'any',
    'BaseDataType.max_length': 'int?',
    'BaseDataType.validation_level': 'int',
    'TextualDataType.highlights': 'any',
    'DateTimeDataType.format': 'str',
    'TM.offset': 'str',
    'DateTime.hour': 'int',
    'DateTime.minute': 'int',
    'TM.microsec_precision': 'int',
    # a version's library module (external: reached through importlib)
    'Library.base_datatypes': 'dict[any]',
    # MLLP
    'MLLPRequestHandler.sb': 'bytes',
    'MLLPRequestHandler.eb': 'bytes',
    'MLLPRequestHandler.cr': 'bytes',
    'MLLPRequestHandler.encoding': 'str',
    'MLLPRequestHandler.handlers': 'dict[any]',
    'MLLPRequestHandler.timeout': 'any',
    'MLLPRequestHandler.request': 'Socket',
    'MLLPRequestHandler.rfile': 'RFile',
    'MLLPRequestHandler.wfile': 'WFile',
    'MLLPRequestHandler.validator': 'Pattern',
    'MLLPRequestHandler.server': 'MLLPServer',
    'MLLPServer.handlers': 'dict[any]',
    'MLLPServer.timeout': 'any',
})

SCHEMA.update({
    # tuple-shaped records of the structure tables (immutable): a reference is ('sequence'|'choice'|'leaf', children
    # [, datatype, long name, table, max length]); a child entry is (name, reference, (min, max), 'SEG'|'GRP'|'FIE'|'CMP')
    'RefStruct.kind': 'str',
    'RefStruct.children': 'tuple[ChildEntry,...]',
    'RefStruct.datatype': 'str?',
    'RefStruct.longname': 'str?',
    'RefStruct.table': 'str?',
    'RefStruct.maxlen': 'int',
    'RefStruct._len': 'int',
    'ChildEntry.name': 'str',
    'ChildEntry.ref': 'RefStruct?',
    'ChildEntry.card': 'tuple[int,int]',
    'ChildEntry.kind': 'str',
})

GLOBALS.update({
    'hl7apy:_DEFAULT_VERSION': 'str',
    'hl7apy:_DEFAULT_VALIDATION_LEVEL': 'int',
    'hl7apy:_DEFAULT_ENCODING_CHARS': 'dict[str]',
    'hl7apy:_DEFAULT_ENCODING_CHARS_27': 'dict[str]',
    'hl7apy:SUPPORTED_LIBRARIES': 'dict[str]',
})
