"""K1 - pure helpers of hl7apy/__init__.py and the parser's default resolvers (C07, C15, C17)"""
from contracts import contract

_REQ = ['FIELD', 'COMPONENT', 'SUBCOMPONENT', 'REPETITION', 'ESCAPE']
_ALL_PRESENT = ' and '.join('dhas(encoding_chars, "%s")' % k for k in _REQ)
_pairs = [(a, b) for i, a in enumerate(_REQ) for b in _REQ[i + 1:]]
_DISTINCT5 = ' and '.join('dget(encoding_chars, "%s") != dget(encoding_chars, "%s")' % p for p in _pairs)
_TRUNC_DISTINCT = 'implies(dhas(encoding_chars, "TRUNCATION"), %s)' % ' and '.join(
    'dget(encoding_chars, "TRUNCATION") != dget(encoding_chars, "%s")' % k for k in _REQ)

contract(
    'hl7apy:check_encoding_chars',
    sig={'encoding_chars': 'dict[str]'},
    returns='none',
    ensures=[
        ('all_present', _ALL_PRESENT),
        ('distinct', _DISTINCT5),
        # C07: "sets with missing or duplicated characters are rejected" - the truncation character counts
        ('truncation_distinct', _TRUNC_DISTINCT),
    ],
    raises={'InvalidEncodingChars': {'when': 'not (%s and %s and %s)' % (_ALL_PRESENT, _DISTINCT5, _TRUNC_DISTINCT)}},
    raises_only=['InvalidEncodingChars'],
    modifies=[],
    properties=['C07'],
    notes='a non-mapping argument raises InvalidEncodingChars as well (isinstance test); the signature restricts to dicts',
)

contract('hl7apy:check_validation_level', sig={'validation_level': 'any'}, returns='none',
         ensures=[('ok', 'validation_level == 1 or validation_level == 2')],
         raises={'UnknownValidationLevel': {'when': 'not (validation_level == 1 or validation_level == 2)'}},
         raises_only=['UnknownValidationLevel'], modifies=[], properties=['C15', 'C17'])

contract('hl7apy:get_default_version', sig={}, returns='str',
         ensures=[('value', 'result == global_("hl7apy:_DEFAULT_VERSION")')], raises={}, modifies=[],
         properties=['C17'])
contract('hl7apy:get_default_validation_level', sig={}, returns='int',
         ensures=[('value', 'result == global_("hl7apy:_DEFAULT_VALIDATION_LEVEL")')], raises={}, modifies=[],
         properties=['C17'])
contract('hl7apy:get_default_encoding_chars', sig={'version': 'str?'}, returns='dict[str]',
         ensures=[('v27', 'implies(version is not None and strlen(version) > 0 and version >= "2.7", '
                          'result is global_("hl7apy:_DEFAULT_ENCODING_CHARS_27"))'),
                  ('older', 'implies(version is None or strlen(version) == 0 or not version >= "2.7", '
                            'result is global_("hl7apy:_DEFAULT_ENCODING_CHARS"))')],
         raises={}, modifies=[], properties=['C07', 'C17'])

contract('hl7apy.parser:_get_validation_level', sig={'validation_level': 'any'}, returns='any',
         ensures=[('explicit', 'implies(validation_level is not None, result == validation_level)'),
                  ('default', 'implies(validation_level is None, result == global_("hl7apy:_DEFAULT_VALIDATION_LEVEL"))'),
                  ('valid', 'implies(validation_level is not None, validation_level == 1 or validation_level == 2)')],
         raises={'UnknownValidationLevel': {'when': 'validation_level is not None and not (validation_level == 1 or validation_level == 2)'}},
         raises_only=['UnknownValidationLevel'], modifies=[], properties=['C15', 'C17'])

contract('hl7apy.parser:_get_encoding_chars', sig={'encoding_chars': 'dict[str]?', 'version': 'str?'},
         returns='dict[str]',
         ensures=[('explicit', 'implies(encoding_chars is not None, result is encoding_chars)'),
                  ('default27', 'implies(encoding_chars is None and version is not None and strlen(version) > 0 and version >= "2.7", '
                                'result is global_("hl7apy:_DEFAULT_ENCODING_CHARS_27"))'),
                  ('default', 'implies(encoding_chars is None and (version is None or strlen(version) == 0 or not version >= "2.7"), '
                              'result is global_("hl7apy:_DEFAULT_ENCODING_CHARS"))')],
         raises={'InvalidEncodingChars': {'when': 'encoding_chars is not None'}},
         raises_only=['InvalidEncodingChars'], modifies=[], properties=['C07', 'C15', 'C17'])

# C17 "changing the defaults never alters elements that already exist": each setter rebinds exactly ONE module-level
# variable (frame: `modifies` names that global only - no heap cell of any existing element, no other default), and only
# after the value was checked (a rejected value leaves every default untouched: exceptional frame `modifies=[]`).
contract('hl7apy:set_default_validation_level', sig={'validation_level': 'any'}, returns='none',
         ensures=[('stored', 'global_("hl7apy:_DEFAULT_VALIDATION_LEVEL") == validation_level'),
                  ('valid', 'validation_level == 1 or validation_level == 2')],
         raises={'UnknownValidationLevel': {'when': 'not (validation_level == 1 or validation_level == 2)',
                                            'must': 'not (validation_level == 1 or validation_level == 2)',
                                            'modifies': []}},
         raises_only=['UnknownValidationLevel'], modifies=['global hl7apy:_DEFAULT_VALIDATION_LEVEL'],
         properties=['C17'])
contract('hl7apy:set_default_version', sig={'version': 'str'}, returns='none',
         ensures=[('stored', 'global_("hl7apy:_DEFAULT_VERSION") == version'),
                  ('supported', 'dhas(global_("hl7apy:SUPPORTED_LIBRARIES"), version)')],
         raises={'UnsupportedVersion': {'when': 'not dhas(global_("hl7apy:SUPPORTED_LIBRARIES"), version)',
                                        'must': 'not dhas(global_("hl7apy:SUPPORTED_LIBRARIES"), version)',
                                        'modifies': []}},
         raises_only=['UnsupportedVersion'], modifies=['global hl7apy:_DEFAULT_VERSION'],
         properties=['C17'])
contract('hl7apy:set_default_encoding_chars', sig={'encoding_chars': 'dict[str]'}, returns='none',
         ensures=[('stored', 'global_("hl7apy:_DEFAULT_ENCODING_CHARS") is encoding_chars'),
                  ('all_present', _ALL_PRESENT), ('distinct', _DISTINCT5), ('truncation_distinct', _TRUNC_DISTINCT),
                  ('group', 'dhas(encoding_chars, "GROUP") and dget(encoding_chars, "GROUP") == "\\r"'),
                  ('segment', 'dhas(encoding_chars, "SEGMENT") and dget(encoding_chars, "SEGMENT") == "\\r"')],
         raises={'InvalidEncodingChars': {'when': 'not (%s and %s and %s)' % (_ALL_PRESENT, _DISTINCT5, _TRUNC_DISTINCT),
                                          'modifies': []}},
         raises_only=['InvalidEncodingChars'],
         modifies=['global hl7apy:_DEFAULT_ENCODING_CHARS', 'encoding_chars{}'],
         properties=['C17', 'C07'],
         notes='the v2.7 default set (_DEFAULT_ENCODING_CHARS_27) is a separate global and is not touched: frame obligation')
