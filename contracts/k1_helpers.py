from contracts import contract
