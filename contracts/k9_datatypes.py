"""K9 - base datatypes and factories (C13, C05, C17, C19)"""
from contracts import contract

STRICT_TOO_LONG = ('is_strict(lvl_or_default(validation_level)) and max_length is not None and '
                   'strlen(fmt("{0}", value)) > max_length')

contract(
    'hl7apy.base_datatypes:BaseDataType.__init__',
    sig={'self': 'BaseDataType', 'value': 'any', 'max_length': 'int?', 'validation_level': 'int?'},
    returns='none', exact_self=True,
    ensures=[
        ('stored', 'self.value == value and self.max_length == max_length'),
        # C17: the explicit level wins; the process default is consulted only when none is given
        ('level', 'self.validation_level == lvl_or_default(validation_level)'),
        ('length_respected', 'not (%s)' % STRICT_TOO_LONG),
    ],
    raises={'MaxLengthReached': {'when': STRICT_TOO_LONG, 'must': STRICT_TOO_LONG}},
    raises_only=['MaxLengthReached'],
    modifies=['self.value', 'self.max_length', 'self.validation_level'],
    allocates=False,
    properties=['C13', 'C05', 'C17'],
)

contract(
    'hl7apy.base_datatypes:BaseDataType.to_er7',
    sig={'self': 'BaseDataType', 'encoding_chars': 'any'},
    returns='str',
    ensures=[('text', 'result == (fmt("{0}", self.value) if self.value is not None else fmt("{0}", ""))')],
    raises={}, raises_only=[], modifies=[], allocates=False,
    properties=['C13'],
)

TOO_LONG = lambda ml, val: ('is_strict(lvl_or_default(validation_level)) and strlen(fmt("{0}", %s)) > %d' % (val, ml))

contract(
    'hl7apy.base_datatypes:NumericDataType.__init__',
    sig={'self': 'NumericDataType', 'value': 'any', 'max_length': 'int?', 'validation_level': 'int?'},
    returns='none', exact_self=True,
    ensures=[('stored', 'self.value == value and self.max_length == max_length'),
             ('level', 'self.validation_level == lvl_or_default(validation_level)')],
    raises={'MaxLengthReached': {'when': STRICT_TOO_LONG, 'must': STRICT_TOO_LONG}},
    raises_only=['MaxLengthReached'],
    modifies=['self.value', 'self.max_length', 'self.validation_level'], allocates=False,
    properties=['C13'],
)

# SI: only integers (or None); maximum length 4 under STRICT
SI_BAD = 'value is not None and not is_integral(value)'
contract(
    'hl7apy.base_datatypes:SI.__init__',
    sig={'self': 'SI', 'value': 'any', 'validation_level': 'int?'},
    returns='none', exact_self=True,
    ensures=[('stored', 'self.value == value and self.max_length == 4'),
             ('level', 'self.validation_level == lvl_or_default(validation_level)'),
             ('integral', 'value is None or is_integral(value)'),
             ('length', 'not (%s)' % TOO_LONG(4, 'value'))],
    raises={'ValueError': {'when': SI_BAD, 'must': SI_BAD},
            'MaxLengthReached': {'when': TOO_LONG(4, 'value')}},
    raises_only=['ValueError', 'MaxLengthReached'],
    modifies=['self.value', 'self.max_length', 'self.validation_level'], allocates=False,
    properties=['C13', 'C05'],
)

contract(
    'hl7apy.base_datatypes:DateTimeDataType.__init__',
    sig={'self': 'DateTimeDataType', 'value': 'any', 'out_format': 'str'},
    returns='none', exact_self=True,
    ensures=[('stored', 'self.value == value and self.format == out_format'),
             ('format_allowed', 'allowed_format(self, out_format)')],
    raises={'InvalidDateFormat': {'when': 'not allowed_format(self, out_format)', 'must': 'not allowed_format(self, out_format)'}},
    raises_only=['InvalidDateFormat'],
    modifies=['self.value', 'self.format'], allocates=False,
    properties=['C13'],
)

OFF_OK = ('(offset == "" or (strlen(offset) == 5 and (char_at(offset, 0) == "+" or char_at(offset, 0) == "-") and '
          'strptime_ok(substr(offset, 1, 4), "%H%M") and offset_in_range(offset)))')
contract(
    'hl7apy.base_datatypes:TM.__init__',
    sig={'self': 'TM', 'value': 'any', 'out_format': 'str', 'offset': 'str', 'microsec_precision': 'int'},
    returns='none', exact_self=True,
    ensures=[('stored', 'self.value == value and self.format == out_format and self.offset == offset and '
                        'self.microsec_precision == microsec_precision'),
             ('format_allowed', 'allowed_format(self, out_format)'),
             ('precision_range', '1 <= microsec_precision and microsec_precision <= 4'),
             ('offset_valid', OFF_OK)],
    raises={'InvalidDateFormat': {'when': 'not allowed_format(self, out_format)'},
            'InvalidMicrosecondsPrecision': {'when': 'not (1 <= microsec_precision and microsec_precision <= 4)'},
            'InvalidDateOffset': {'when': 'not %s' % OFF_OK}},
    raises_only=['InvalidDateFormat', 'InvalidMicrosecondsPrecision', 'InvalidDateOffset'],
    modifies=['self.value', 'self.format', 'self.offset', 'self.microsec_precision'], allocates=False,
    properties=['C13'],
)

contract(
    'hl7apy.base_datatypes:DateTimeDataType.to_er7',
    sig={'self': 'DateTimeDataType', 'encoding_chars': 'any'},
    returns='str',
    ensures=[('text', 'result == strftime(self.value, self.format)')],
    raises={}, raises_only=[], modifies=[], allocates=False,
    properties=['C13'],
)

# TM / DTM: fractional seconds are cut to the recorded precision, the offset is appended verbatim
contract(
    'hl7apy.base_datatypes:TM.to_er7',
    sig={'self': 'TM', 'encoding_chars': 'any'},
    returns='str',
    requires=['1 <= self.microsec_precision and self.microsec_precision <= 4'],
    ensures=[('with_fraction', 'implies(contains(self.format, "%f"), '
                               'result == drop_last(strftime(self.value, self.format), 6 - self.microsec_precision) + self.offset)'),
             ('without_fraction', 'implies(not contains(self.format, "%f"), result == strftime(self.value, self.format) + self.offset)')],
    raises={}, raises_only=[], modifies=[], allocates=False,
    properties=['C13', 'C01'],
)
