"""K6 header functions: _split_msh, get_message_type, get_message_info (C07, C15)"""
from contracts import contract

# spec helpers: F = field separator = content[3]; line = first_line(content); fields = split(line, F)
_IS_HL7 = 'strlen(content) >= 4 and substr(content, 0, 3) == "MSH" and not is_space(char_at(content, 3))'
_F = 'char_at(content, 3)'
_LINE = 'first_line(content)'
_SEPS = 'split_item(first_line(content), char_at(content, 3), 1)'
_NF = 'split_len(first_line(content), char_at(content, 3))'

contract(
    'hl7apy.parser:_split_msh',
    sig={'content': 'str'},
    returns='tuple[list[str],dict[str]]',
    requires=[],
    ensures=[
        ('is_hl7', _IS_HL7),
        ('fields', 'len(result[0]) == %s and all(result[0][i] == split_item(%s, %s, i) for i in range(len(result[0])))'
         % (_NF, _LINE, _F)),
        ('field', 'dhas(result[1], "FIELD") and dget(result[1], "FIELD") == %s' % _F),
        ('component', 'dhas(result[1], "COMPONENT") and dget(result[1], "COMPONENT") == char_at(%s, 0)' % _SEPS),
        ('repetition', 'dhas(result[1], "REPETITION") and dget(result[1], "REPETITION") == char_at(%s, 1)' % _SEPS),
        ('escape', 'dhas(result[1], "ESCAPE") and dget(result[1], "ESCAPE") == char_at(%s, 2)' % _SEPS),
        ('subcomponent', 'dhas(result[1], "SUBCOMPONENT") and dget(result[1], "SUBCOMPONENT") == char_at(%s, 3)' % _SEPS),
        ('segment_group', 'dget(result[1], "SEGMENT") == "\\r" and dget(result[1], "GROUP") == "\\r" and '
                          'dhas(result[1], "SEGMENT") and dhas(result[1], "GROUP")'),
        ('truncation', 'dhas(result[1], "TRUNCATION") == (strlen(%s) == 5) and '
                       'implies(strlen(%s) == 5, dget(result[1], "TRUNCATION") == char_at(%s, 4))' % (_SEPS, _SEPS, _SEPS)),
        ('seps_len', 'strlen(%s) == 4 or (strlen(%s) == 5 and %s >= 12 and split_item(%s, %s, 11) >= "2.7")'
         % (_SEPS, _SEPS, _NF, _LINE, _F)),
        ('distinct', 'all_distinct_chars(%s)' % _SEPS),
        ('at_least_two_fields', '%s >= 2' % _NF),
    ],
    raises={
        'ParserError': {'when': 'not (%s)' % _IS_HL7, 'must': 'not (%s)' % _IS_HL7},
        'InvalidEncodingChars': {'when': _IS_HL7},
    },
    raises_only=['ParserError', 'InvalidEncodingChars'],
    modifies=[],
    properties=['C07', 'C15'],
)

contract(
    'hl7apy.parser:get_message_type',
    sig={'content': 'str'},
    returns='str?',
    ensures=[
        ('msh9', 'implies(%s >= 9, result == strip(split_item(%s, %s, 8)))' % (_NF, _LINE, _F)),
        ('absent', 'implies(%s < 9, result is None)' % _NF),
    ],
    raises={'ParserError': {'when': 'not (%s)' % _IS_HL7, 'must': 'not (%s)' % _IS_HL7},
            'InvalidEncodingChars': {'when': _IS_HL7}},
    raises_only=['ParserError', 'InvalidEncodingChars'],
    modifies=[],
    properties=['C15', 'C16'],
)

_M9 = 'strip(split_item(%s, %s, 8))' % (_LINE, _F)
_CMP = 'char_at(%s, 0)' % _SEPS
_M12 = 'strip(split_item(%s, %s, 11))' % (_LINE, _F)
contract(
    'hl7apy.parser:get_message_info',
    sig={'content': 'str'},
    returns='tuple[dict[str],str?,str?]',
    ensures=[
        ('ec_field', 'dget(result[0], "FIELD") == %s' % _F),
        ('ec_component', 'dget(result[0], "COMPONENT") == %s' % _CMP),
        ('structure3', 'implies(%s >= 9 and split_len(%s, %s) >= 3, result[1] == split_item(%s, %s, 2))'
         % (_NF, _M9, _CMP, _M9, _CMP)),
        ('structure2', 'implies(%s >= 9 and split_len(%s, %s) == 2, '
                       'result[1] == fmt("{0}_{1}", split_item(%s, %s, 0), split_item(%s, %s, 1)))'
         % (_NF, _M9, _CMP, _M9, _CMP, _M9, _CMP)),
        ('structure_none', 'implies(%s < 9 or split_len(%s, %s) < 2, result[1] is None)' % (_NF, _M9, _CMP)),
        ('version', 'implies(%s >= 12, result[2] == split_item(%s, %s, 0))' % (_NF, _M12, _CMP)),
        ('version_none', 'implies(%s < 12, result[2] is None)' % _NF),
    ],
    raises={'ParserError': {'when': 'not (%s)' % _IS_HL7, 'must': 'not (%s)' % _IS_HL7},
            'InvalidEncodingChars': {'when': _IS_HL7}},
    raises_only=['ParserError', 'InvalidEncodingChars'],
    modifies=[],
    properties=['C15', 'C07'],
)
