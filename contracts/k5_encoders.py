"""K5 - encoder helpers (C01, C03, C06, C16)"""
from contracts import contract

# _remove_trailing: the result is the longest prefix of `children` whose last item is truthy
contract(
    'hl7apy.core:_remove_trailing',
    sig={'children': 'list[list[Element]?]'},
    returns='list[list[Element]?]',
    ensures=[
        ('prefix', 'len(result) <= len(children) and all(result[k] is children[k] for k in range(len(result)))'),
        ('last_kept_is_truthy', 'implies(len(result) > 0, nonempty(result[len(result) - 1]))'),
        ('dropped_are_falsy', 'all(not nonempty(children[k]) for k in range(len(result), len(children)))'),
        ('input_untouched', 'list_len(children) == old(list_len(children))'),
    ],
    raises={},
    raises_only=[],
    modifies=[],
    allocates=['La.R', 'Ll'],
    properties=['C01', 'C03'],
)

ESC = 'dget(encoding_chars, "ESCAPE")'


def pair(i, key, letter):
    return ('pair%d_%s' % (i, key.lower()),
            'result[%d][0] == dget(encoding_chars, "%s") and result[%d][1] == %s + "%s" + %s' % (i, key, i, ESC, letter, ESC))


FOUR = [pair(0, 'FIELD', 'F'), pair(1, 'COMPONENT', 'S'), pair(2, 'SUBCOMPONENT', 'T'), pair(3, 'REPETITION', 'R')]
HAS4 = ' and '.join('dhas(encoding_chars, "%s")' % k for k in ('ESCAPE', 'FIELD', 'COMPONENT', 'SUBCOMPONENT', 'REPETITION'))

contract(
    'hl7apy.base_datatypes:TextualDataType._get_translations',
    sig={'self': 'TextualDataType', 'encoding_chars': 'dict[str]'},
    returns='tuple[tuple[str,str],tuple[str,str],tuple[str,str],tuple[str,str]]',
    requires=[HAS4],
    ensures=FOUR,
    raises={},
    raises_only=[],
    modifies=[],
    properties=['C06', 'C01'],
)

contract(
    'hl7apy.v2_7.base_datatypes:TextualDataType._get_translations',
    sig={'self': 'TextualDataType', 'encoding_chars': 'dict[str]'},
    returns='any',
    requires=[HAS4],
    ensures=[(n, 'implies(dhas(encoding_chars, "TRUNCATION"), %s)' % c) for n, c in FOUR + [pair(4, 'TRUNCATION', 'L')]] +
            [('five_iff_truncation', 'tuple_len(result) == (5 if dhas(encoding_chars, "TRUNCATION") else 4)')] +
            [(n + '_no_trunc', 'implies(not dhas(encoding_chars, "TRUNCATION"), %s)' % c) for n, c in FOUR],
    raises={},
    raises_only=[],
    modifies=[],
    properties=['C06', 'C01'],
)

contract(
    'hl7apy.base_datatypes:TextualDataType._get_escape_char_regex',
    sig={'self': 'TextualDataType', 'escape_char': 'str'},
    returns='str',
    ensures=[('pattern', 'result == pct("(?<!%s[HNFSTRE])%s(?![HNFSTRE]%s)", re_escape(escape_char), re_escape(escape_char), re_escape(escape_char))')],
    raises={}, raises_only=[], modifies=[], properties=['C06', 'C01'],
)

contract(
    'hl7apy.v2_7.base_datatypes:TextualDataType._get_escape_char_regex',
    sig={'self': 'TextualDataType', 'escape_char': 'str'},
    returns='str',
    ensures=[('pattern', 'result == pct("(?<!%s[HNFSTREL])%s(?![HNFSTREL]%s)", re_escape(escape_char), re_escape(escape_char), re_escape(escape_char))')],
    raises={}, raises_only=[], modifies=[], properties=['C06', 'C01'],
)

# interfaces used by to_mllp (the encoders themselves are covered by the ground position lemma and the bounded
# round-trip driver; their loop contracts are not built - DESIGN 8)
contract('hl7apy.core:Element.to_er7', sig={'self': 'Element', 'encoding_chars': 'dict[str]?', 'trailing_children': 'bool'},
         returns='str', interface=True, verify=False,
         ensures=[('function_of_arguments', 'result == er7_of(self, encoding_chars, trailing_children)')],
         raises={}, modifies=[], allocates=False, properties=['C16'],
         notes='interface: the encoding is a function of the element, the delimiters and the flag (pure)')
contract('hl7apy.core:Message._get_encoding_chars', sig={'self': 'Message'}, returns='dict[str]', interface=True, verify=False,
         ensures=[('function_of_message', 'result is msg_ec(self)')], raises={}, modifies=[], allocates=False, properties=['C16'],
         notes='interface: reads MSH-1 / MSH-2 (covered by the bounded delimiter driver)')

# C16 (M1): to_mllp() is always start-block + to_er7() + CR + end-block + CR
contract(
    'hl7apy.core:Message.to_mllp',
    sig={'self': 'Message', 'encoding_chars': 'dict[str]?', 'trailing_children': 'bool'},
    returns='str',
    ensures=[('framing', 'result == "\\x0b" + er7_of(self, encoding_chars if encoding_chars is not None else msg_ec(self), '
                         'trailing_children) + "\\r" + "\\x1c" + "\\r"')],
    raises={}, raises_only=[], modifies=[], allocates=False,
    properties=['C16'],
)

for _cls in ('Field', 'Segment', 'SubComponent'):
    contract('hl7apy.core:%s.to_er7' % _cls, sig={'self': _cls, 'encoding_chars': 'dict[str]?', 'trailing_children': 'bool'},
             returns='str', interface=True, verify=False,
             ensures=[('function_of_arguments', 'result == er7_of(self, encoding_chars, trailing_children)')],
             raises={}, modifies=[], allocates=False, properties=['C04'],
             notes='interface: the encoding is a function of the element, the delimiters and the flag (pure)')

# ---- the position <-> name map on the encode side (C02): slot k of the children handed to the encoder is the by-name
# index of the k-th name of the element's ordered_children - nothing else decides the position of a child in the text
contract(
    'hl7apy.core:ElementList.get_ordered_children',
    sig={'self': 'ElementList'},
    returns='list[list[Element]?]',
    ensures=[
        ('one_slot_per_ordered_name', 'len(result) == list_len(self.element.ordered_children)'),
        ('slot_is_by_name_index', 'all(slot_at(result, k) is dget_ref(self.indexes, list_at_str(self.element.ordered_children, k)) '
                                  'for k in range(list_len(self.element.ordered_children)))'),
        ('fresh_list', 'is_fresh(result)'),
    ],
    raises={}, raises_only=[],
    modifies=[],
    allocates=['La.R', 'Ll'],
    properties=['C02', 'C01', 'C11'],
)

contract(
    'hl7apy.core:ElementList.get_children',
    sig={'self': 'ElementList'},
    returns='list[tuple[Element]]',
    ensures=[
        # C03 / C09: the insertion-order view handed to the TOLERANT encoders is exactly the children list, in order
        ('one_slot_per_child', 'len(result) == len(self.list)'),
        ('slot_is_the_child', 'all(tuple_first(result, k) is list_at(self.list, k) for k in range(len(self.list)))'),
        ('fresh_list', 'is_fresh(result)'),
    ],
    raises={}, raises_only=[],
    modifies=[],
    allocates=['La.R', 'La.V', 'Ll'],
    properties=['C03', 'C09', 'C01', 'C11'],
)

# ---- C07 / C17: which encoding characters an element works with.  Interface (the property is replaced in Message by
# _get_encoding_chars, assumed above): the answer is ec_of(self); Element's own getter is proved against it - it asks its
# parent, else its temporary parent, and only an element with neither reads the process-wide default, for ITS version.
contract('hl7apy.core:Element.encoding_chars', sig={'self': 'Element'}, returns='dict[str]',
         ensures=[('answer', 'result is ec_of(self)')], raises={}, raises_only=[], modifies=[],
         interface=True, verify=False, properties=['C07', 'C17'],
         notes='interface of the encoding_chars property; proved for Element under the [impl] key, assumed for Message '
               '(Message._get_encoding_chars reads MSH-1 / MSH-2)')
contract('hl7apy.core:Element.encoding_chars[impl]', sig={'self': 'Element'}, returns='dict[str]',
         requires=['class_name_of(self) != "Message"'],
         ensures=[('answer', 'result is ec_of(self)'),
                  # C17: the process-wide default is what a detached element uses - and nothing else does
                  ('detached_uses_default_of_its_version',
                   'implies(self._parent is None and self._traversal_parent is None, '
                   'result is (global_("hl7apy:_DEFAULT_ENCODING_CHARS_27") if strlen(self.version) > 0 and self.version >= "2.7" '
                   'else global_("hl7apy:_DEFAULT_ENCODING_CHARS")))')],
         raises={}, raises_only=[], modifies=[], exact_self=True, properties=['C07', 'C17', 'C06'])
