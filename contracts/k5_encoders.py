"""K5 - encoder helpers (C01, C03, C06, C16)"""
from contracts import contract

# _remove_trailing: the result is the longest prefix of `children` whose last item is truthy
contract(
    'hl7apy.core:_remove_trailing',
    sig={'children': 'list[list[Element]?]'},
    returns='list[list[Element]?]',
    ensures=[
        ('prefix', 'len(result) <= len(children) and all(result[k] is children[k] for k in range(len(result)))'),
        ('last_kept_is_truthy', 'implies(len(result) > 0, nonempty(result[len(result) - 1]))'),
        ('dropped_are_falsy', 'all(not nonempty(children[k]) for k in range(len(result), len(children)))'),
        ('input_untouched', 'list_len(children) == old(list_len(children))'),
    ],
    raises={},
    raises_only=[],
    modifies=[],
    allocates=['La.R', 'Ll'],
    properties=['C01', 'C03'],
)

ESC = 'dget(encoding_chars, "ESCAPE")'


def pair(i, key, letter):
    return ('pair%d_%s' % (i, key.lower()),
            'result[%d][0] == dget(encoding_chars, "%s") and result[%d][1] == %s + "%s" + %s' % (i, key, i, ESC, letter, ESC))


FOUR = [pair(0, 'FIELD', 'F'), pair(1, 'COMPONENT', 'S'), pair(2, 'SUBCOMPONENT', 'T'), pair(3, 'REPETITION', 'R')]
HAS4 = ' and '.join('dhas(encoding_chars, "%s")' % k for k in ('ESCAPE', 'FIELD', 'COMPONENT', 'SUBCOMPONENT', 'REPETITION'))

contract(
    'hl7apy.base_datatypes:TextualDataType._get_translations',
    sig={'self': 'TextualDataType', 'encoding_chars': 'dict[str]'},
    returns='tuple[tuple[str,str],tuple[str,str],tuple[str,str],tuple[str,str]]',
    requires=[HAS4],
    ensures=FOUR,
    raises={},
    raises_only=[],
    modifies=[],
    properties=['C06', 'C01'],
)

contract(
    'hl7apy.v2_7.base_datatypes:TextualDataType._get_translations',
    sig={'self': 'TextualDataType', 'encoding_chars': 'dict[str]'},
    returns='any',
    requires=[HAS4],
    ensures=[(n, 'implies(dhas(encoding_chars, "TRUNCATION"), %s)' % c) for n, c in FOUR + [pair(4, 'TRUNCATION', 'L')]] +
            [('five_iff_truncation', 'tuple_len(result) == (5 if dhas(encoding_chars, "TRUNCATION") else 4)')] +
            [(n + '_no_trunc', 'implies(not dhas(encoding_chars, "TRUNCATION"), %s)' % c) for n, c in FOUR],
    raises={},
    raises_only=[],
    modifies=[],
    properties=['C06', 'C01'],
)

contract(
    'hl7apy.base_datatypes:TextualDataType._get_escape_char_regex',
    sig={'self': 'TextualDataType', 'escape_char': 'str'},
    returns='str',
    ensures=[('pattern', 'result == pct("(?<!%s[HNFSTRE])%s(?![HNFSTRE]%s)", re_escape(escape_char), re_escape(escape_char), re_escape(escape_char))')],
    raises={}, raises_only=[], modifies=[], properties=['C06', 'C01'],
)

contract(
    'hl7apy.v2_7.base_datatypes:TextualDataType._get_escape_char_regex',
    sig={'self': 'TextualDataType', 'escape_char': 'str'},
    returns='str',
    ensures=[('pattern', 'result == pct("(?<!%s[HNFSTREL])%s(?![HNFSTREL]%s)", re_escape(escape_char), re_escape(escape_char), re_escape(escape_char))')],
    raises={}, raises_only=[], modifies=[], properties=['C06', 'C01'],
)

# interfaces used by to_mllp (the encoders themselves are covered by the ground position lemma and the bounded
# round-trip driver; their loop contracts are not built - DESIGN 8)
contract('hl7apy.core:Element.to_er7', sig={'self': 'Element', 'encoding_chars': 'dict[str]?', 'trailing_children': 'bool'},
         returns='str', interface=True, verify=False,
         ensures=[('function_of_arguments', 'result == er7_of(self, encoding_chars, trailing_children)')],
         raises={}, modifies=[], allocates=False, properties=['C16'],
         notes='interface: the encoding is a function of the element, the delimiters and the flag (pure)')
contract('hl7apy.core:Message._get_encoding_chars', sig={'self': 'Message'}, returns='dict[str]', interface=True, verify=False,
         ensures=[('function_of_message', 'result is msg_ec(self)')], raises={}, modifies=[], allocates=False, properties=['C16'],
         notes='interface: reads MSH-1 / MSH-2 (covered by the bounded delimiter driver)')

# C16 (M1): to_mllp() is always start-block + to_er7() + CR + end-block + CR
contract(
    'hl7apy.core:Message.to_mllp',
    sig={'self': 'Message', 'encoding_chars': 'dict[str]?', 'trailing_children': 'bool'},
    returns='str',
    ensures=[('framing', 'result == "\\x0b" + er7_of(self, encoding_chars if encoding_chars is not None else msg_ec(self), '
                         'trailing_children) + "\\r" + "\\x1c" + "\\r"')],
    raises={}, raises_only=[], modifies=[], allocates=False,
    properties=['C16'],
)

for _cls in ('Field', 'Segment', 'SubComponent'):
    contract('hl7apy.core:%s.to_er7' % _cls, sig={'self': _cls, 'encoding_chars': 'dict[str]?', 'trailing_children': 'bool'},
             returns='str', interface=True, verify=False,
             ensures=[('function_of_arguments', 'result == er7_of(self, encoding_chars, trailing_children)')],
             raises={}, modifies=[], allocates=False, properties=['C04'],
             notes='interface: the encoding is a function of the element, the delimiters and the flag (pure)')

# ---- the position <-> name map on the encode side (C02): slot k of the children handed to the encoder is the by-name
# index of the k-th name of the element's ordered_children - nothing else decides the position of a child in the text
contract(
    'hl7apy.core:ElementList.get_ordered_children',
    sig={'self': 'ElementList'},
    returns='list[list[Element]?]',
    ensures=[
        ('one_slot_per_ordered_name', 'len(result) == list_len(self.element.ordered_children)'),
        ('slot_is_by_name_index', 'all(slot_at(result, k) is dget_ref(self.indexes, list_at_str(self.element.ordered_children, k)) '
                                  'for k in range(list_len(self.element.ordered_children)))'),
        ('fresh_list', 'is_fresh(result)'),
    ],
    raises={}, raises_only=[],
    modifies=[],
    allocates=['La.R', 'Ll'],
    properties=['C02', 'C01', 'C11'],
)

contract(
    'hl7apy.core:ElementList.get_children',
    sig={'self': 'ElementList'},
    returns='list[tuple[Element]]',
    ensures=[
        # C03 / C09: the insertion-order view handed to the TOLERANT encoders is exactly the children list, in order
        ('one_slot_per_child', 'len(result) == len(self.list)'),
        ('slot_is_the_child', 'all(tuple_first(result, k) is list_at(self.list, k) for k in range(len(self.list)))'),
        ('slots_are_one_tuples', 'all(slot_len(result, k) == 1 and slot_at(result, k) is not None for k in range(len(self.list)))'),
        ('fresh_list', 'is_fresh(result)'),
    ],
    raises={}, raises_only=[],
    modifies=[],
    allocates=['La.R', 'La.V', 'Ll'],
    properties=['C03', 'C09', 'C01', 'C11'],
)

# ---- C07 / C17: which encoding characters an element works with.  Interface (the property is replaced in Message by
# _get_encoding_chars, assumed above): the answer is ec_of(self); Element's own getter is proved against it - it asks its
# parent, else its temporary parent, and only an element with neither reads the process-wide default, for ITS version.
contract('hl7apy.core:Element.encoding_chars', sig={'self': 'Element'}, returns='dict[str]',
         ensures=[('answer', 'result is ec_of(self)')], raises={}, raises_only=[], modifies=[],
         interface=True, verify=False, properties=['C07', 'C17'],
         notes='interface of the encoding_chars property; proved for Element under the [impl] key, assumed for Message '
               '(Message._get_encoding_chars reads MSH-1 / MSH-2)')
contract('hl7apy.core:Element.encoding_chars[impl]', sig={'self': 'Element'}, returns='dict[str]',
         requires=['class_name_of(self) != "Message"'],
         ensures=[('answer', 'result is ec_of(self)'),
                  # C17: the process-wide default is what a detached element uses - and nothing else does
                  ('detached_uses_default_of_its_version',
                   'implies(self._parent is None and self._traversal_parent is None, '
                   'result is (global_("hl7apy:_DEFAULT_ENCODING_CHARS_27") if strlen(self.version) > 0 and self.version >= "2.7" '
                   'else global_("hl7apy:_DEFAULT_ENCODING_CHARS")))')],
         raises={}, raises_only=[], modifies=[], exact_self=True, properties=['C07', 'C17', 'C06'])

# ---- Group._get_children (C08 / C03 / C01): what a group (and a message) hands to the encoder - the structure-order view
# under STRICT, the insertion-order view otherwise; trailing empty slots are dropped unless asked for
_ORD = 'self.element_ordered()'
_G_STRICT = 'self.validation_level == 1'
contract(
    'hl7apy.core:Group._get_children',
    sig={'self': 'Group', 'trailing': 'bool'},
    returns='list[any]',
    requires=['sep(self.children)', 'self.children.element is self'],
    ensures=[
        ('strict_is_structure_order',
         'implies(%s, len(result) <= list_len(self.ordered_children) and '
         'all(slot_at(result, k) is dget_ref(self.children.indexes, list_at_str(self.ordered_children, k)) for k in range(len(result))))' % _G_STRICT),
        ('strict_keeps_all_with_trailing', 'implies(%s and trailing, len(result) == list_len(self.ordered_children))' % _G_STRICT),
        ('strict_drops_only_empty_tail',
         'implies(%s and not trailing, all(not nonempty(dget_ref(self.children.indexes, list_at_str(self.ordered_children, k))) '
         'for k in range(len(result), list_len(self.ordered_children))))' % _G_STRICT),
        ('tolerant_is_insertion_order',
         'implies(not (%s), len(result) == len(self.children.list) and '
         'all(tuple_first(result, k) is list_at(self.children.list, k) for k in range(len(self.children.list))))' % _G_STRICT),
    ],
    raises={}, raises_only=[],
    modifies=[], allocates=['La.R', 'La.V', 'Ll'],
    properties=['C08', 'C03', 'C01'],
)

# ---- Segment._get_children (C02): the position <-> name map of a segment on the encode side.  Slot k of what the encoder
# iterates is the by-name index of the k-th field of the structure; for an open-ended segment the slots after the last
# defined field are the by-name indexes of <SEG>_<last+1>, <SEG>_<last+2>, ... up to the highest field ever added; only
# after those come the children without a structure name.  (With trailing=False the list is a prefix of this.)
_NORD = 'list_len(self.ordered_children)'
_EXTRA_AT = 'fmt("{}_{}", self.name, self._last_allowed_child_index + 1 + (k - %s))' % _NORD
contract(
    'hl7apy.core:Segment._get_children',
    sig={'self': 'Segment', 'trailing': 'bool'},
    returns='list[list[Element]?]',
    requires=['sep(self.children)', 'self.children.element is self', 'self.ordered_children is not None', 'self.name is not None'],
    ensures=[
        ('defined_fields_by_position',
         'all(implies(k < %s, slot_at(result, k) is dget_ref(self.children.indexes, list_at_str(self.ordered_children, k))) '
         'for k in range(len(result)))' % _NORD),
        ('extra_fields_by_number',
         'implies(self.allow_infinite_children, '
         'all(implies(k >= %s and k < %s + (self._last_child_index - self._last_allowed_child_index), '
         'slot_at(result, k) is dget_ref(self.children.indexes, %s)) for k in range(len(result))))' % (_NORD, _NORD, _EXTRA_AT)),
        ('nothing_lost_with_trailing',
         'implies(trailing, len(result) >= %s + (max0(self._last_child_index - self._last_allowed_child_index) '
         'if self.allow_infinite_children else 0))' % _NORD),
    ],
    raises={}, raises_only=[],
    modifies=[], allocates=['La.R', 'La.V', 'Ll'],
    loops={0: {'header': 'for i in xrange(self._last_allowed_child_index + 1, self._last_child_index + 1)',
               'inv': [('length', 'len(children) == %s + _i' % _NORD),
                       ('defined', 'all(slot_at(children, k) is dget_ref(self.children.indexes, list_at_str(self.ordered_children, k)) '
                                   'for k in range(%s))' % _NORD),
                       ('extra', 'all(implies(k >= %s, slot_at(children, k) is dget_ref(self.children.indexes, %s)) '
                                 'for k in range(%s + _i))' % (_NORD, _EXTRA_AT, _NORD))],
               'modifies': ['children[]']}},
    properties=['C02', 'C01'],
)

# ---- Element._get_children (components of a field, subcomponents of a component: C02 for datatype positions)
contract(
    'hl7apy.core:Element._get_children',
    sig={'self': 'Element', 'trailing': 'bool'},
    returns='list[list[Element]?]',
    requires=['sep(self.children)', 'self.children.element is self', 'self.ordered_children is not None'],
    ensures=[
        ('defined_children_by_position',
         'all(implies(k < %s, slot_at(result, k) is dget_ref(self.children.indexes, list_at_str(self.ordered_children, k))) '
         'for k in range(len(result)))' % _NORD),
        ('nothing_lost_with_trailing', 'implies(trailing, len(result) >= %s)' % _NORD),
    ],
    raises={}, raises_only=[],
    modifies=[], allocates=['La.R', 'La.V', 'Ll'],
    properties=['C02', 'C01'],
)

# ---- SupportComplexDataType._get_children (fields and components): which view is encoded depends on whether the datatype is
# a base datatype OF THE ELEMENT'S OWN VERSION (C17 / C02: a call-site obligation); the complex case is Element._get_children
contract(
    'hl7apy.core:SupportComplexDataType._get_children',
    sig={'self': 'Field', 'trailing': 'bool'},
    returns='list[list[Element]?]',
    requires=['sep(self.children)', 'self.children.element is self', 'self.ordered_children is not None'],
    ensures=[],
    raises={'UnsupportedVersion': {}}, raises_only=['UnsupportedVersion'],
    modifies=[], allocates=['La.R', 'La.V', 'Ll'],
    call_asserts={'is_base_datatype': [('own_version', 'arg(1) == self.version')]},
    exact_self=True,
    properties=['C17', 'C02'],
)
