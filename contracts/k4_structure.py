"""K4 - reference threading (C18, C17, C02): the structure an element works with is the reference it was given"""
from contracts import contract

contract(
    'hl7apy.core:ElementFinder._parse_structure',
    sig={'element': 'Element', 'reference': 'RefStruct'},
    returns='dict[any]',
    requires=['ref_arity(reference) >= 2', 'ref_arity(reference) <= 6'],
    ensures=[
        ('reference_kept', 'result["reference"] is reference'),
        # C02: one ordered child name per child entry of the reference, in the entries' order
        ('one_name_per_entry', 'implies(ref_kind(reference) == "sequence" or ref_kind(reference) == "choice", '
                               'dhas(result, "ordered_children") and list_len(result["ordered_children"]) == n_children(reference))'),
        ('leaf_has_no_children_map', 'implies(not (ref_kind(reference) == "sequence" or ref_kind(reference) == "choice"), '
                                     'not dhas(result, "ordered_children") and not dhas(result, "structure_by_name"))'),
    ],
    raises={'KeyError': {}},      # a child entry whose kind the element class does not list in child_classes
    raises_only=['KeyError'],
    modifies=[],
    allocates=True,
    loops={0: {'header': 'for c in children',
               'inv': [('data_ref', 'data["reference"] is reference'),
                       ('data_keys', 'not dhas(data, "ordered_children") and not dhas(data, "structure_by_name")'),
                       ('one_name_per_entry_so_far', 'len(ordered_children) == _i')],
               'modifies': ['structure{}', 'structure_by_longname{}', 'repetitions{}', 'counters{}', 'ordered_children[]'],
               'allocates': True}},
    local_types={'data': 'dict[any]', 'ordered_children': 'list[str]', 'structure': 'dict[any]', 'structure_by_longname': 'dict[any]', 'repetitions': 'dict[any]'},
    properties=['C18', 'C17', 'C02', 'C14'],
)

# the structure tables of a version, reached through importlib: an external dependency (assumed contract)
contract(
    'hl7apy:load_reference',
    sig={'name': 'str?', 'element_type': 'str', 'version': 'str'},
    returns='RefStruct',
    ensures=[('arity', 'ref_arity(result) >= 2 and ref_arity(result) <= 6')],
    raises={'ChildNotFound': {}, 'KeyError': {}, 'UnsupportedVersion': {}},
    raises_only=['ChildNotFound', 'KeyError', 'UnsupportedVersion'],
    modifies=[],
    interface=True, verify=False,
    notes='table lookup through importlib (lib.get): assumed; the arity of every table row is checked by the ground passes',
)

contract(
    'hl7apy.core:ElementFinder.get_structure',
    sig={'element': 'Element', 'reference': 'RefStruct?'},
    returns='dict[any]',
    requires=['implies(reference is not None, ref_arity(reference) >= 2 and ref_arity(reference) <= 6)'],
    ensures=[
        ('given_reference_is_used', 'implies(reference is not None, result["reference"] is reference)'),
    ],
    raises={'InvalidName': {'when': 'reference is None'}, 'KeyError': {}, 'UnsupportedVersion': {'when': 'reference is None'}},
    raises_only=['InvalidName', 'KeyError', 'UnsupportedVersion'],
    modifies=[],
    allocates=True,
    properties=['C18', 'C17'],
)

contract('hl7apy:check_version', sig={'version': 'str'}, returns='none',
         ensures=[('supported', 'dhas(global_("hl7apy:SUPPORTED_LIBRARIES"), version)')],
         raises={'UnsupportedVersion': {'when': 'not dhas(global_("hl7apy:SUPPORTED_LIBRARIES"), version)',
                                        'must': 'not dhas(global_("hl7apy:SUPPORTED_LIBRARIES"), version)'}},
         raises_only=['UnsupportedVersion'], modifies=[], properties=['C15', 'C17'])

# _find_structure copies every key of get_structure()'s result onto the element with setattr(self, k, v) for a
# symbolic k: outside the engine (attribute names must be constants).  ASSUMED: the copy loop stores result['reference']
# in self.reference; get_structure itself (the part that decides WHICH reference) is proved above.
contract(
    'hl7apy.core:Element._find_structure',
    sig={'self': 'Element', 'reference': 'RefStruct?'},
    returns='none',
    requires=['implies(reference is not None, ref_arity(reference) >= 2 and ref_arity(reference) <= 6)'],
    ensures=[('given_reference_is_used', 'implies(reference is not None and (self.name is not None or is_varies_class(self)), '
                                         'refval_is(self.reference, reference))')],
    raises={'InvalidName': {'when': 'reference is None'}, 'KeyError': {}, 'UnsupportedVersion': {'when': 'reference is None'}},
    raises_only=['InvalidName', 'KeyError', 'UnsupportedVersion'],
    modifies=['self.reference', 'self.repetitions', 'self.ordered_children', 'self.structure_by_name', 'self.structure_by_longname',
              'self._datatype', 'self.table', 'self.long_name'],
    allocates=True,
    interface=True, verify=False,
    notes='the setattr copy loop over a symbolic key is assumed; overridden in CanBeVaries with the same loop',
)

_V = 'version if version is not None else global_("hl7apy:_DEFAULT_VERSION")'
_L = 'validation_level if validation_level is not None else global_("hl7apy:_DEFAULT_VALIDATION_LEVEL")'
contract(
    'hl7apy.core:Element.__init__',
    sig={'self': 'Element', 'name': 'str?', 'parent': 'Element?', 'reference': 'RefStruct?', 'version': 'str?',
         'validation_level': 'int?', 'traversal_parent': 'Element?'},
    returns='none',
    requires=['implies(reference is not None, ref_arity(reference) >= 2 and ref_arity(reference) <= 6)',
              'parent is None and traversal_parent is None'],
    ensures=[
        ('version_threaded', 'self.version == (%s)' % _V),
        ('level_threaded', 'self.validation_level == (%s)' % _L),
        ('level_valid', 'self.validation_level == 1 or self.validation_level == 2'),
        ('version_supported', 'old(dhas(global_("hl7apy:SUPPORTED_LIBRARIES"), %s))' % _V),
        ('name_upper', 'implies(name is not None, self.name == upper(name)) and implies(name is None, self.name is None)'),
        ('reference_threaded', 'implies(reference is not None and name is not None, refval_is(self.reference, reference))'),
        ('detached', 'self._parent is None and self._traversal_parent is None'),
        ('own_children', 'self.children.element is self'),
    ],
    raises={'OperationNotAllowed': {'when': 'class_name_of(self) == "Element"', 'must': 'class_name_of(self) == "Element"'},
            'UnknownValidationLevel': {'when': 'not ((%s) == 1 or (%s) == 2)' % (_L, _L)},
            'UnsupportedVersion': {}, 'InvalidName': {'when': 'reference is None'}, 'KeyError': {}},
    raises_only=['OperationNotAllowed', 'UnknownValidationLevel', 'UnsupportedVersion', 'InvalidName', 'KeyError'],
    modifies=['self.*'],
    allocates=True,
    properties=['C17', 'C18'],
    notes='verified for detached construction (parent and traversal_parent None, as the parser builds elements); the attach '
          'step of a given parent is the contract of Element.__setattr__[parent] / [traversal_parent] (C10, C11)',
)

# ---- plain attribute stores: Element.__setattr__ (and its override in Field, which goes through _do_traversal) store
# a cls_attrs name with object.__setattr__.  One contract per attribute and implementation; the Element one is the
# interface used at call sites (self.<attr> = value on any Element subclass), both are verified on the real bodies.
PLAIN_ATTRS = {
    'validation_level': ('int', '=='), 'name': ('str?', '=='), 'version': ('str', '=='), 'table': ('any', '=='),
    'long_name': ('str?', '=='), 'children': ('ElementList', 'is'), 'structure_by_name': ('dict[dict[any]]?', 'is'),
    'structure_by_longname': ('dict[dict[any]]?', 'is'), 'ordered_children': ('list[str]?', 'is'),
    'repetitions': ('dict[tuple[int,int]]', 'is'), 'child_classes': ('dict[any]', 'is'),
}
for _attr, (_ty, _op) in sorted(PLAIN_ATTRS.items()):
    for _cls in ('Element', 'Field'):
        contract(
            'hl7apy.core:%s.__setattr__[%s]' % (_cls, _attr),
            sig={'self': _cls, 'name': '="%s"' % _attr, 'value': _ty},
            returns='none',
            ensures=[('stored', 'self.%s %s value' % (_attr, _op))],
            raises={}, raises_only=[],
            modifies=['self.%s' % _attr],
            interface=(_cls == 'Element'),
            # (children: the value is an ElementList, so the list of children to re-add is the empty literal)
            loops=({0: {'header': 'for c in children', 'inv': [('nothing_to_add', 'len(children) == 0')], 'modifies': []}}
                   if _attr == 'children' and _cls == 'Element' else {}),
            properties=['C17', 'C18'],
        )

# ---- ElementList.create_element: the child is built by `cls(element_name, **kwargs)` with cls read from the reference
# entry.  ASSUMED (dynamic call): whatever Element subclass cls is, its constructor behaves like Element.__init__ on the
# keyword arguments it is given (each subclass __init__ forwards them to Element.__init__, which is proved above; the
# forwarding itself is the ground AST pass astpass:c17_forwarding).
_ATTACH_EXC = ('ChildNotValid', 'ChildNotFound', 'MaxChildLimitReached', 'OperationNotAllowed')
contract(
    'hl7apy.core:Element[constructed]',
    sig={'self': 'Element', 'name': 'str?', 'reference': 'any', 'validation_level': 'int?', 'version': 'str?',
         'parent': 'Element?', 'traversal_parent': 'Element?'},
    returns='none',
    ensures=[
        ('version_threaded', 'implies(version is not None, self.version == version)'),
        ('level_threaded', 'implies(validation_level is not None, self.validation_level == validation_level)'),
        ('reference_threaded', 'implies(reference is not None and name is not None, self.reference == reference)'),
        ('linked', 'self._parent is parent and self._traversal_parent is (traversal_parent if parent is None else None)'),
    ],
    raises=dict([(n, {}) for n in _ATTACH_EXC + ('UnknownValidationLevel', 'UnsupportedVersion', 'InvalidName', 'KeyError')]),
    modifies=None,
    allocates=True,
    interface=True, verify=False,
    notes='assumed for the dynamic constructor call in create_element; Element.__init__ (proved) is the common base',
)

contract(
    'hl7apy.core:ElementList.create_element',
    sig={'self': 'ElementList', 'name': 'str', 'traversal_parent': 'bool', 'reference': 'dict[any]?'},
    returns='Element',
    requires=['implies(reference is not None, dhas(reference, "cls") and dhas(reference, "name") and dhas(reference, "ref") and '
              'isstr(dget(reference, "name")))'],
    ensures=[
        # C17 / C18: the child works with its parent's version and validation level and with the reference of the entry
        ('version_inherited', 'result.version == old(self.element.version)'),
        ('level_inherited', 'result.validation_level == old(self.element.validation_level)'),
        ('entry_reference_used', 'implies(reference is not None and old(dget(reference, "ref")) is not None, '
                                 'result.reference == old(dget(reference, "ref")))'),
        ('linked', 'implies(not traversal_parent, result._parent is old(self.element)) and '
                   'implies(traversal_parent, result._parent is None and result._traversal_parent is old(self.element))'),
    ],
    raises=dict([('ChildNotFound', {})] + [(n, {}) for n in _ATTACH_EXC[:1] + _ATTACH_EXC[2:] +
                                          ('UnknownValidationLevel', 'UnsupportedVersion', 'InvalidName', 'KeyError')]),
    modifies=None,
    allocates=True,
    dynamic_calls={'cls': {'contract': 'hl7apy.core:Element[constructed]', 'new': 'Element'}},
    properties=['C17', 'C18'],
    notes='frame not claimed (the attach step is C09/C10 territory); the constructor call is dynamic (assumed contract)',
)


# ---- Group / Segment constructors: the threading of Element.__init__ carried through the subclasses the parser builds
_THREAD = [
    ('version_threaded', 'self.version == (%s)' % _V),
    ('level_threaded', 'self.validation_level == (%s)' % _L),
    ('reference_threaded', 'implies(reference is not None and name is not None, refval_is(self.reference, reference))'),
    ('detached', 'self._parent is None and self._traversal_parent is None'),
]
_CTOR_REQ = ['implies(reference is not None, ref_arity(reference) >= 2 and ref_arity(reference) <= 6)',
             'parent is None and traversal_parent is None']
_CTOR_SIG = {'name': 'str?', 'parent': 'Element?', 'reference': 'RefStruct?', 'version': 'str?',
             'validation_level': 'int?', 'traversal_parent': 'Element?'}
contract(
    'hl7apy.core:Group.__init__',
    sig=dict({'self': 'Group'}, **_CTOR_SIG),
    returns='none',
    requires=_CTOR_REQ + ['class_name_of(self) == "Group" or class_name_of(self) == "Message"'],
    ensures=_THREAD + [('named_or_tolerant', 'self.name is not None or self.validation_level != 1')],
    raises={'OperationNotAllowed': {'when': 'name is None'}, 'UnknownValidationLevel': {}, 'UnsupportedVersion': {},
            'InvalidName': {'when': 'reference is None'}, 'KeyError': {}},
    raises_only=['OperationNotAllowed', 'UnknownValidationLevel', 'UnsupportedVersion', 'InvalidName', 'KeyError'],
    modifies=['self.*'], allocates=True,
    properties=['C17', 'C18'],
)

# (Segment.__init__ is not under contract: after Element.__init__ it reads structure_by_name[last]['ref'][2], a subscript
#  of a dynamically typed dict value; stating that every entry's 'ref' is a table record needs a quantified well-formedness
#  predicate through the assumed _find_structure - left to the ground pass `constructible` and the bounded drivers)
