"""K10 - MLLP routing (C16): MLLPRequestHandler._route_message"""
from contracts import contract, SCHEMA
from contracts.k6_header import _IS_HL7, _F, _LINE, _NF

# the handler object the (user-supplied) handler class builds, as far as the routing cares: which class built it and from
# what; reply() is the user's code (any string, or any exception) - method hook `method:RoutedHandler.reply` in vocab.py,
# which also records WHICH handler replied (ghost `replier`)
SCHEMA.update({'RoutedHandler.made_by': 'any', 'RoutedHandler.first_arg': 'any', 'RoutedHandler.second_arg': 'any',
               'RoutedHandler.rest_args': 'any', 'RoutedHandler.reply_text': 'str'})

for _n, _sig in (('_create_handler', {'self': 'MLLPRequestHandler', 'handler_class': 'any', 'msg': 'any', 'args': 'any'}),
                 ('_create_error_handler', {'self': 'MLLPRequestHandler', 'handler_class': 'any', 'exc': 'any', 'msg': 'any', 'args': 'any'})):
    contract(
        'hl7apy.mllp:MLLPRequestHandler.' + _n, sig=_sig, returns='RoutedHandler',
        ensures=[('built_by', 'result.made_by == handler_class'),
                 ('built_from', 'result.first_arg == msg' if _n == '_create_handler' else 'result.second_arg == msg'),
                 ('built_with', 'result.rest_args == args'),
                 ('fresh', 'is_fresh(result)')],
        raises={'Exception': {}},
        modifies=[], allocates=True, interface=True, verify=False,
        notes='handler_class(msg, *args) / handler_class(exc, msg, *args): the user-supplied handler class - assumed to '
              'build a handler from exactly what it is given',
    )

_M = lambda e: e.replace('content', 'msg')     # the header vocabulary of k6_header, over this function's parameter
_KEY = 'opt_str(%s >= 9, strip(split_item(%s, %s, 8)))' % (_M(_NF), _M(_LINE), _M(_F))
_NORMAL = ('dhas(self.handlers, %s) and replier().made_by == tuple_item_any(dget(self.handlers, %s), 0) and '
           'replier().first_arg == msg' % (_KEY, _KEY))
_ERROR = ('dhas(self.handlers, "ERR") and replier().made_by == tuple_item_any(dget(self.handlers, "ERR"), 0) and '
          'replier().second_arg == msg')
contract(
    'hl7apy.mllp:MLLPRequestHandler._route_message',
    sig={'self': 'MLLPRequestHandler', 'msg': 'str'},
    returns='str',
    requires=['all_handler_entries_are_tuples(self.handlers)'],
    ensures=[
        # C16: the one reply sent is the reply() of ONE handler, built either by the class registered for the message's
        # own type (MSH-9 as get_message_type reads it) from this message, or by the ERR class from this message
        ('one_reply', 'result == replier().reply_text'),
        ('correctly_routed', '(%s) or (%s)' % (_NORMAL, _ERROR)),
        ('not_hl7_goes_to_err', 'implies(not (%s), %s)' % (_M(_IS_HL7), _ERROR)),
        ('unregistered_type_goes_to_err', 'implies((%s) and not dhas(self.handlers, %s), %s)' % (_M(_IS_HL7), _KEY, _ERROR)),
    ],
    # without an ERR handler the failure propagates (handle() then closes the connection without a reply)
    raises={'InvalidHL7Message': {'when': 'not dhas(self.handlers, "ERR") and not (%s)' % _M(_IS_HL7)},
            'UnsupportedMessageType': {'when': 'not dhas(self.handlers, "ERR") and not dhas(self.handlers, %s)' % _KEY},
            'Exception': {}},
    modifies=[], allocates=True,
    properties=['C16'],
    notes='partial: reply() and the handler constructors are user code (assumed interfaces); concurrency is not modelled',
)

# ---- handle(): one framed request in, at most one reply out, connection closed (C16).  The socket, the buffered reader
# and the writer are external objects; their methods are modelled in vocab.py (`method:Socket.recv`, `.close`,
# `method:RFile.read`, `method:WFile.write`) with ghost counters: how often the connection was closed, how many replies were
# written and which bytes.
SCHEMA.update({'Socket.nclosed': 'int', 'WFile.nwrites': 'int', 'WFile.last': 'bytes'})

contract(
    'hl7apy.mllp:MLLPRequestHandler._extract_hl7_message',
    sig={'self': 'MLLPRequestHandler', 'msg': 'str'},
    returns='str?',
    raises={}, modifies=[], interface=True, verify=False,
    notes='the frame validator regular expression (nested, variable-width groups): assumed pure; bounded driver mllp_d',
)

contract(
    'hl7apy.mllp:MLLPRequestHandler.handle',
    sig={'self': 'MLLPRequestHandler'},
    returns='none',
    requires=['all_handler_entries_are_tuples(self.handlers)', 'self.request.nclosed == 0', 'self.wfile.nwrites == 0',
              'self.sb == b"\\x0b" and self.eb == b"\\x1c" and self.cr == b"\\x0d"'],
    ensures=[
        ('at_most_one_reply', 'self.wfile.nwrites <= 1'),
        ('connection_closed', 'self.request.nclosed >= 1'),
    ],
    raises={'UnicodeDecodeError': {}, 'LookupError': {}},
    modifies=['self.request.nclosed', 'self.wfile.nwrites', 'self.wfile.last'],
    allocates=True,
    loops={0: {'header': 'while line[-2:] != end_seq',
               'inv': [('nothing_sent', 'self.wfile.nwrites == 0'), ('still_open', 'self.request.nclosed == 0')],
               'vars': {'line': 'bytes', 'char': 'bytes'},
               'modifies': []}},
    properties=['C16'],
)
