"""K8 - validator closures (C04)"""
from contracts import contract

contract('hl7apy.validation:Validator.is_strict', sig={'level': 'any'}, inline=True)
contract('hl7apy.validation:Validator.is_tolerant', sig={'level': 'any'}, inline=True)

contract(
    'hl7apy.validation:Validator.validate.<locals>._check_repetitions',
    sig={'el': 'Element', 'children': 'ElementProxy', 'cardinality': 'tuple[int,int]', 'child_name': 'str',
         'errs': 'list[any]'},
    requires=[],
    ensures=[
        ('missing', 'implies(old(nrep(children)) < cardinality[0], '
                    'len(errs) == old(len(errs)) + 1 and is_exc(errs[old(len(errs))], "ValidationError", '
                    'fmt("Missing required child {}.{}", el.name, child_name)))'),
        ('exceeded', 'implies(cardinality[1] != -1 and old(nrep(children)) > cardinality[1] and old(nrep(children)) >= cardinality[0], '
                     'len(errs) == old(len(errs)) + 1 and is_exc(errs[old(len(errs))], "ValidationError", '
                     'fmt("Child limit exceeded {}.{}", el.name, child_name)))'),
        ('nothing', 'implies(old(nrep(children)) >= cardinality[0] and (cardinality[1] == -1 or old(nrep(children)) <= cardinality[1]), '
                    'len(errs) == old(len(errs)))'),
        ('prefix', 'all(errs[i] == old(errs[i]) for i in range(old(len(errs))))'),
    ],
    modifies=['errs[]'],
    raises={},
    properties=['C04'],
)

V = 'hl7apy.validation:Validator.validate.<locals>.'

contract(
    V + '_check_datatype',
    sig={'el': 'Field', 'ref': 'RefStruct', 'errs': 'list[any]'},
    returns='none',
    requires=['ref._len == 6', 'el._parent is not None'],
    ensures=[
        ('mismatch_reported', 'implies(el._datatype != ref.datatype, len(errs) == old(len(errs)) + 1 and '
                              'is_exc(errs[old(len(errs))], "ValidationError", '
                              'fmt("Datatype {} is not correct for {}.{} (it must be {})", el._datatype, el._parent.name, el.name, ref.children)))'),
        ('match_silent', 'implies(el._datatype == ref.datatype, len(errs) == old(len(errs)))'),
        ('prefix', 'all(errs[i] == old(errs[i]) for i in range(old(len(errs))))'),
    ],
    raises={}, raises_only=[], modifies=['errs[]'],
    properties=['C04'],
)

contract(
    V + '_check_length',
    sig={'el': 'Field', 'ref': 'RefStruct', 'warns': 'list[any]'},
    returns='none',
    requires=['ref._len == 6', 'el._parent is not None'],
    ensures=[
        ('too_long_warned', 'implies(-1 < ref.maxlen and ref.maxlen < strlen(er7_of(el, None, False)), len(warns) == old(len(warns)) + 1)'),
        ('otherwise_silent', 'implies(not (-1 < ref.maxlen and ref.maxlen < strlen(er7_of(el, None, False))), len(warns) == old(len(warns)))'),
        ('prefix', 'all(warns[i] == old(warns[i]) for i in range(old(len(warns))))'),
    ],
    raises={}, raises_only=[], modifies=['warns[]'],
    properties=['C04'],
)

contract(
    V + '_get_child_reference_info',
    sig={'ref': 'ChildEntry'},
    returns='tuple[str,tuple[int,int]]',
    ensures=[('name', 'result[0] == ref.name'), ('cardinality', 'result[1][0] == ref.card[0] and result[1][1] == ref.card[1]')],
    raises={}, raises_only=[], modifies=[], allocates=False,
    properties=['C04'],
)

# ---- the recursion and the tail of validate() (C04): errors are only ever appended, and the three ways of reporting them
# (exception, ErrorsAndWarnings, True) agree with the collected list
_GROWS = [('errors_only_appended', 'len(errs) >= old(len(errs)) and all(errs[i] == old(errs[i]) for i in range(old(len(errs))))'),
          ('warnings_only_appended', 'len(warns) >= old(len(warns)) and all(warns[i] == old(warns[i]) for i in range(old(len(warns))))')]
for _n in ('_check_known_element', '_check_z_element'):
    contract(
        V + _n,
        sig=({'el': 'Element', 'ref': 'any', 'errs': 'list[any]', 'warns': 'list[any]'} if _n == '_check_known_element'
             else {'el': 'Element', 'errs': 'list[any]', 'warns': 'list[any]'}),
        returns='any',
        ensures=list(_GROWS),
        raises={n: {} for n in ('HL7apyException', 'AttributeError', 'TypeError', 'KeyError', 'IndexError', 'ValueError')},
        modifies=None,
        interface=True, verify=False,
        notes='assumed for the mutually recursive walk (errors are only appended): the per-element checks it is made of '
              '(_check_repetitions, _check_datatype, _check_length, _get_child_reference_info) are proved above',
    )

contract(
    V + '_is_valid',
    sig={'el': 'Element', 'ref': 'any', 'errs': 'list[any]', 'warns': 'list[any]'},
    returns='any',
    requires=['errs is not warns'],
    ensures=list(_GROWS) + [
        # an element the structure does not know is reported, once, and not descended into
        ('unknown_reported', 'implies(old(is_unknown_of(el)), len(errs) == old(len(errs)) + 1 and len(warns) == old(len(warns)))'),
    ],
    raises={n: {} for n in ('HL7apyException', 'AttributeError', 'TypeError', 'KeyError', 'IndexError', 'ValueError')},
    modifies=None,
    properties=['C04'],
)

# ---- validate(): the three ways of reporting agree (C04)
contract(
    'hl7apy.validation:Validator.validate',
    sig={'element': 'Element', 'reference': 'any', 'report_file': 'any', 'return_errors': 'bool'},
    returns='any',
    requires=['report_file is None'],
    ensures=[
        # without return_errors the only normal result is True (errors are raised instead)
        ('true_or_raise', 'implies(not return_errors, result == True)'),
        # with return_errors: is_valid says exactly whether the error list is empty
        ('report_consistent', 'implies(return_errors, report_is_valid(result) == (report_error_count(result) == 0))'),
    ],
    # `raise errors[0]`: the first collected error (a value of the untyped list: pseudo-class DynamicException) - raised
    # only when the caller did not ask for the report; everything else comes out of the walk itself
    raises={n: ({'when': 'not return_errors'} if n == 'DynamicException' else {})
            for n in ('DynamicException', 'HL7apyException', 'AttributeError', 'TypeError', 'KeyError', 'IndexError', 'ValueError')},
    raises_only=['DynamicException', 'HL7apyException', 'AttributeError', 'TypeError', 'KeyError', 'IndexError', 'ValueError'],
    modifies=None,
    local_types={'errors': 'list[any]', 'warnings': 'list[any]'},
    properties=['C04'],
    notes='report_file is None (the file-writing branches are I/O: bounded driver); the walk itself is the closures above',
)
