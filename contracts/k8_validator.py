"""K8 - validator closures (C04)"""
from contracts import contract

contract('hl7apy.validation:Validator.is_strict', sig={'level': 'any'}, inline=True)
contract('hl7apy.validation:Validator.is_tolerant', sig={'level': 'any'}, inline=True)

contract(
    'hl7apy.validation:Validator.validate.<locals>._check_repetitions',
    sig={'el': 'Element', 'children': 'ElementProxy', 'cardinality': 'tuple[int,int]', 'child_name': 'str',
         'errs': 'list[any]'},
    requires=[],
    ensures=[
        ('missing', 'implies(old(nrep(children)) < cardinality[0], '
                    'len(errs) == old(len(errs)) + 1 and is_exc(errs[old(len(errs))], "ValidationError", '
                    'fmt("Missing required child {}.{}", el.name, child_name)))'),
        ('exceeded', 'implies(cardinality[1] != -1 and old(nrep(children)) > cardinality[1] and old(nrep(children)) >= cardinality[0], '
                     'len(errs) == old(len(errs)) + 1 and is_exc(errs[old(len(errs))], "ValidationError", '
                     'fmt("Child limit exceeded {}.{}", el.name, child_name)))'),
        ('nothing', 'implies(old(nrep(children)) >= cardinality[0] and (cardinality[1] == -1 or old(nrep(children)) <= cardinality[1]), '
                    'len(errs) == old(len(errs)))'),
        ('prefix', 'all(errs[i] == old(errs[i]) for i in range(old(len(errs))))'),
    ],
    modifies=['errs[]'],
    raises={},
    properties=['C04'],
)

V = 'hl7apy.validation:Validator.validate.<locals>.'

contract(
    V + '_check_datatype',
    sig={'el': 'Field', 'ref': 'RefStruct', 'errs': 'list[any]'},
    returns='none',
    requires=['ref._len == 6', 'el._parent is not None'],
    ensures=[
        ('mismatch_reported', 'implies(el._datatype != ref.datatype, len(errs) == old(len(errs)) + 1 and '
                              'is_exc(errs[old(len(errs))], "ValidationError", '
                              'fmt("Datatype {} is not correct for {}.{} (it must be {})", el._datatype, el._parent.name, el.name, ref.children)))'),
        ('match_silent', 'implies(el._datatype == ref.datatype, len(errs) == old(len(errs)))'),
        ('prefix', 'all(errs[i] == old(errs[i]) for i in range(old(len(errs))))'),
    ],
    raises={}, raises_only=[], modifies=['errs[]'],
    properties=['C04'],
)

contract(
    V + '_check_length',
    sig={'el': 'Field', 'ref': 'RefStruct', 'warns': 'list[any]'},
    returns='none',
    requires=['ref._len == 6', 'el._parent is not None'],
    ensures=[
        ('too_long_warned', 'implies(-1 < ref.maxlen and ref.maxlen < strlen(er7_of(el, None, False)), len(warns) == old(len(warns)) + 1)'),
        ('otherwise_silent', 'implies(not (-1 < ref.maxlen and ref.maxlen < strlen(er7_of(el, None, False))), len(warns) == old(len(warns)))'),
        ('prefix', 'all(warns[i] == old(warns[i]) for i in range(old(len(warns))))'),
    ],
    raises={}, raises_only=[], modifies=['warns[]'],
    properties=['C04'],
)

contract(
    V + '_get_child_reference_info',
    sig={'ref': 'ChildEntry'},
    returns='tuple[str,tuple[int,int]]',
    ensures=[('name', 'result[0] == ref.name'), ('cardinality', 'result[1][0] == ref.card[0] and result[1][1] == ref.card[1]')],
    raises={}, raises_only=[], modifies=[], allocates=False,
    properties=['C04'],
)
