"""K8 - validator closures (C04)"""
from contracts import contract

contract('hl7apy.validation:Validator.is_strict', sig={'level': 'any'}, inline=True)
contract('hl7apy.validation:Validator.is_tolerant', sig={'level': 'any'}, inline=True)

contract(
    'hl7apy.validation:Validator.validate.<locals>._check_repetitions',
    sig={'el': 'Element', 'children': 'ElementProxy', 'cardinality': 'tuple[int,int]', 'child_name': 'str',
         'errs': 'list[any]'},
    requires=[],
    ensures=[
        ('missing', 'implies(old(nrep(children)) < cardinality[0], '
                    'len(errs) == old(len(errs)) + 1 and is_exc(errs[old(len(errs))], "ValidationError", '
                    'fmt("Missing required child {}.{}", el.name, child_name)))'),
        ('exceeded', 'implies(cardinality[1] != -1 and old(nrep(children)) > cardinality[1] and old(nrep(children)) >= cardinality[0], '
                     'len(errs) == old(len(errs)) + 1 and is_exc(errs[old(len(errs))], "ValidationError", '
                     'fmt("Child limit exceeded {}.{}", el.name, child_name)))'),
        ('nothing', 'implies(old(nrep(children)) >= cardinality[0] and (cardinality[1] == -1 or old(nrep(children)) <= cardinality[1]), '
                    'len(errs) == old(len(errs)))'),
        ('prefix', 'all(errs[i] == old(errs[i]) for i in range(old(len(errs))))'),
    ],
    modifies=['errs[]'],
    raises={},
    properties=['C04'],
)
