"""K9 - factories.datatype_factory: dispatch, TOLERANT fallback, defaults, and the frame on the library's shared table
(C13 / C05 / C17 / C19)"""
from contracts import contract

contract(
    'hl7apy:load_library',
    sig={'version': 'str'},
    returns='Library',
    raises={'UnsupportedVersion': {'when': 'not dhas(global_("hl7apy:SUPPORTED_LIBRARIES"), version)'}},
    raises_only=['UnsupportedVersion'],
    modifies=[],
    interface=True, verify=False,
    notes='importlib.import_module of the version package: external, assumed (the returned module object is process-wide)',
)

# what every entry of the factory table does when called (the five *_factory functions and the base datatype classes):
# a fresh datatype object carrying the validation level it was given, or ValueError-family exceptions.  ASSUMED for the
# dynamic calls below; BaseDataType / NumericDataType / SI / TM / DateTimeDataType constructors are proved in k9_datatypes.
contract(
    'hl7apy.factories:[table entry]',
    sig={'value': 'any', 'datatype_cls': 'any', 'validation_level': 'any'},
    returns='BaseDataType',
    ensures=[('fresh', 'is_fresh(result)'),
             ('level', 'result.validation_level == (validation_level if validation_level is not None else '
                       'global_("hl7apy:_DEFAULT_VALIDATION_LEVEL"))')],
    raises={'ValueError': {}, 'KeyError': {}, 'TypeError': {}, 'AttributeError': {}},
    modifies=[],
    allocates=True,
    interface=True, verify=False,
    notes='assumed contract of the callables stored in the factory table (dynamic call)',
)

# the ST entry of the table is the ST class itself: BaseDataType.__init__ (proved in k9_datatypes) raises - MaxLengthReached,
# a ValueError - only under STRICT
contract(
    'hl7apy.factories:[ST entry]',
    sig={'value': 'any', 'datatype_cls': 'any', 'validation_level': 'any'},
    returns='BaseDataType',
    ensures=[('fresh', 'is_fresh(result)'),
             ('level', 'result.validation_level == (validation_level if validation_level is not None else '
                       'global_("hl7apy:_DEFAULT_VALIDATION_LEVEL"))')],
    raises={'ValueError': {'when': 'validation_level == 1'}, 'TypeError': {}, 'AttributeError': {}},
    modifies=[],
    allocates=True,
    interface=True, verify=False,
    notes='assumed for the dynamic call factories[\'ST\'](...); restates the proved contract of BaseDataType.__init__',
)

_LVL = 'validation_level if validation_level is not None else global_("hl7apy:_DEFAULT_VALIDATION_LEVEL")'
contract(
    'hl7apy.factories:datatype_factory',
    sig={'datatype': 'str', 'value': 'any', 'version': 'str?', 'validation_level': 'int?'},
    returns='BaseDataType',
    ensures=[
        # C17: the level given (or, only when none is given, the default) is the level of the datatype object
        ('level_threaded', 'result.validation_level == (%s)' % _LVL),
        ('fresh', 'is_fresh(result)'),
    ],
    raises={
        'InvalidDataType': {},
        # C05 / C13: a value the datatype refuses is an error under STRICT only; TOLERANT falls back to ST
        'ValueError': {'when': '(%s) == 1' % _LVL},
        'UnsupportedVersion': {}, 'TypeError': {}, 'AttributeError': {}, 'KeyError': {'when': '(%s) != 1' % _LVL},
    },
    raises_only=['InvalidDataType', 'ValueError', 'UnsupportedVersion', 'TypeError', 'AttributeError', 'KeyError'],
    # C19: nothing that existed before the call is written - in particular not the library's table of base datatypes,
    # which is shared by every thread (the factory table is a copy)
    modifies=[],
    allocates=True,
    dynamic_calls={'factory': {'contract': 'hl7apy.factories:[table entry]'},
                   "factories['ST']": {'contract': 'hl7apy.factories:[ST entry]'}},
    properties=['C13', 'C05', 'C17', 'C19'],
)
