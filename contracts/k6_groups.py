"""K6 - the recursive segment search of group finding (C08): _get_segment_reference"""
from contracts import contract

# reach(node, name): `name` is a SEG child of node, or reach(g.ref, name) for a GRP child g  (spec function `reach`,
# defined by its unfolding axiom in vocab.py).  The result is None exactly when the top of the stack cannot reach the
# segment; the stack is then restored; otherwise the stack only grows by a chain of declared GRP children whose last
# element declares the segment, and the returned reference is that declaration's.
contract(
    'hl7apy.parser:_get_segment_reference',
    sig={'segment_name': 'str', 'parents_ref': 'list[tuple[any,RefStruct]]'},
    returns='tuple[RefStruct?,list[tuple[any,RefStruct]]]',
    requires=['len(parents_ref) >= 1'],
    ensures=[
        ('same_stack_object', 'result[1] is parents_ref'),
        ('not_found_restores', 'implies(result[0] is None, len(parents_ref) == old(len(parents_ref)))'),
        ('found_grows_only', 'implies(result[0] is not None, len(parents_ref) >= old(len(parents_ref)))'),
        ('prefix_kept', 'all(stack_item(parents_ref, k) is old(stack_item(parents_ref, k)) for k in range(old(len(parents_ref))))'),
        ('found_is_declared', 'implies(result[0] is not None, declares_seg(stack_ref(parents_ref, len(parents_ref) - 1), segment_name, result[0]))'),
        ('chain_is_declared', 'all(declares_grp(stack_ref(parents_ref, k - 1), stack_item(parents_ref, k)) '
                              'for k in range(old(len(parents_ref)), len(parents_ref)))'),
    ],
    raises={},
    raises_only=[],
    modifies=['parents_ref[]'],
    loops={
        0: {'header': 'for c in p_ref[1]',
            'inv': [('ref_none', 'ref is None'),
                    ('stack_untouched', 'len(parents_ref) == old(len(parents_ref)) and '
                                        'all(stack_item(parents_ref, k) is old(stack_item(parents_ref, k)) for k in range(old(len(parents_ref))))'),
                    ('groups_declared', 'all(entry_kind(groups[k]) == "GRP" and is_child_entry(p_ref, groups[k]) for k in range(len(groups)))')],
            'vars': {'groups': 'list[ChildEntry]', 'ref': 'RefStruct?'}},
        1: {'header': 'for g in groups',
            'inv': [('ref_none', 'ref is None'),
                    ('stack_untouched', 'len(parents_ref) == old(len(parents_ref)) and '
                                        'all(stack_item(parents_ref, k) is old(stack_item(parents_ref, k)) for k in range(old(len(parents_ref))))')],
            'vars': {'ref': 'RefStruct?', 'parents_ref': 'list[tuple[any,RefStruct]]'}},
    },
    local_types={'groups': 'list[ChildEntry]'},
    allocates=['La.V', 'Ll'],
    properties=[],     # not run yet: the loop frames need per-array havoc lists (DESIGN 8); the AST ownership pass and the
                       # bounded group driver cover this function meanwhile
)
