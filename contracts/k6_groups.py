"""K6 - the recursive segment search of group finding (C08): _get_segment_reference"""
from contracts import contract

# The stack `parents_ref` holds (name, reference) pairs; its top is searched for a SEG child called segment_name, then -
# only when no such direct child exists - the GRP children are tried in declaration order, each pushed while it is
# searched and popped when the search below it fails.
#   * a direct SEG child wins: the result is exactly the first such entry's reference, the stack is untouched;
#   * result None  => the stack is restored (same object, same length, same items);
#   * result found => the stack only grew, the old items are kept, every new entry restates a GRP child of the entry
#     below it (declares_grp), and the reference returned is that of the first SEG child called segment_name of the
#     new top (so: every element of the chain is a declared child of its parent - C08).
# Termination (the recursion follows the finite nesting of the structure) is NOT proved: partial correctness.
TOP = 'stack_ref(parents_ref, len(parents_ref) - 1)'
contract(
    'hl7apy.parser:_get_segment_reference',
    sig={'segment_name': 'str', 'parents_ref': 'list[tuple[any,RefStruct]]'},
    returns='tuple[RefStruct?,list[tuple[any,RefStruct]]]',
    requires=['len(parents_ref) >= 1', 'ref_arity(%s) >= 2' % TOP],
    ensures=[
        ('same_stack_object', 'result[1] is parents_ref'),
        ('direct_child_wins', 'implies(old(seg_idx(%s, segment_name)) >= 0, '
                              'len(parents_ref) == old(len(parents_ref)) and '
                              'result[0] is old(entry_ref(child_entry(%s, seg_idx(%s, segment_name)))))' % (TOP, TOP, TOP)),
        ('not_found_restores', 'implies(result[0] is None, len(parents_ref) == old(len(parents_ref)))'),
        ('found_grows_only', 'implies(result[0] is not None, len(parents_ref) >= old(len(parents_ref)))'),
        ('prefix_kept', 'all(stack_item(parents_ref, k) is old(stack_item(parents_ref, k)) for k in range(old(len(parents_ref))))'),
        ('found_is_declared', 'implies(result[0] is not None, seg_idx(%s, segment_name) >= 0 and '
                              'result[0] is entry_ref(child_entry(%s, seg_idx(%s, segment_name))))' % (TOP, TOP, TOP)),
        ('chain_is_declared', 'all(declares_grp(stack_ref(parents_ref, k - 1), stack_item(parents_ref, k)) '
                              'for k in range(old(len(parents_ref)), len(parents_ref)))'),
    ],
    raises={},
    raises_only=[],
    modifies=['parents_ref[]'],
    loops={
        0: {'header': 'for c in p_ref[1]',
            'inv': [('ref_none', 'ref is None'),
                    ('no_direct_hit_so_far', 'seg_idx(p_ref, segment_name) == -1 or seg_idx(p_ref, segment_name) >= _i'),
                    ('groups_declared', 'all(entry_kind(list_at(groups, k)) == "GRP" and is_child_entry(p_ref, list_at(groups, k)) '
                                        'and declares_grp_entry(p_ref, list_at(groups, k)) '
                                        'for k in range(len(groups)))')],
            'vars': {'ref': 'RefStruct?'},
            'modifies': ['groups[]']},
        1: {'header': 'for g in groups',
            'inv': [('ref_none', 'ref is None'),
                    ('same_stack', 'parents_ref is old(parents_ref)'),
                    ('stack_restored', 'len(parents_ref) == old(len(parents_ref))'),
                    ('prefix_kept', 'all(stack_item(parents_ref, k) is old(stack_item(parents_ref, k)) for k in range(old(len(parents_ref))))')],
            'vars': {'ref': 'RefStruct?', 'parents_ref': 'list[tuple[any,RefStruct]]'},
            'modifies': ['parents_ref[]'], 'allocates': ['La.V', 'Ll']},
    },
    local_types={'groups': 'list[ChildEntry]'},
    allocates=['La.V', 'Ll'],
    properties=['C08', 'C03'],
    notes='partial correctness (termination of the recursion over the finite structure nesting is not proved); the data '
          'invariants of the structure tables (reference arity 2 or 6, GRP entries carry a reference) are assumed here and '
          'checked row by row by the ground table passes',
)
