#!/usr/bin/env python3
"""check.py --property Cxx [--tier quick|thorough]

Decides one property of /verif/properties.jsonl for /repo's current working tree:
  P  contract obligations generated from the real AST (pyvc) and discharged by z3 4.8.12 / z3 5.1 / cvc5
  G  ground obligations over the per-version tables (finite, exhaustive)
  B  bounded stand-ins (run-time contract monitors / small-scope drivers on the real code), labelled bounded
Exit 0: held on everything explored (known findings printed as KNOWN-FINDING lines);
exit 1: a line `VIOLATION property=<id> replay=<path>` was printed.
"""
import argparse
import hashlib
import importlib
import json
import multiprocessing as mp
import os
import subprocess
import sys
import time
import traceback

HERE = os.path.dirname(os.path.abspath(__file__))
sys.path.insert(0, HERE)
REPO = os.environ.get('HL7APY_REPO', '/repo')
os.environ.setdefault('HL7APY_REPO', REPO)
if REPO not in sys.path:
    sys.path.insert(0, REPO)


def _gen(key):
    """worker: generate the VCs of one function (SMT-LIB text)"""
    t0 = time.time()
    import signal

    def _too_long(signum, frame):
        raise TimeoutError('VC generation exceeded %d s' % GEN_LIMIT)
    try:
        signal.signal(signal.SIGALRM, _too_long)
        signal.alarm(GEN_LIMIT)
    except (ValueError, AttributeError):
        pass
    try:
        from contracts import build_world
        from pyvc.spec import Verifier
        from pyvc import smt
        w = _gen.world if hasattr(_gen, 'world') else build_world()
        _gen.world = w
        v = Verifier(w)
        res = v.verify(key)
        ax = v.global_axioms()
        vcs = []
        for vc in res.vcs:
            vcs.append({'name': vc.name, 'kind': vc.kind, 'info': {k: (str(x) if not isinstance(x, (int, str, type(None))) else x)
                                                                 for k, x in vc.info.items()},
                        'smt2': smt.vc_to_smt2(vc, ax, produce_models=True)})
        fs = res.fs
        return {'key': key, 'status': res.status, 'reason': res.reason, 'paths': res.paths, 'vcs': vcs,
                'file': fs.path if fs else None, 'span': list(fs.span) if fs else None, 'sha256': fs.sha if fs else None,
                'inlined': res.inlined, 'notes': res.notes, 'gen_s': round(time.time() - t0, 2),
                'assumed_used': sorted(getattr(v, 'assumed_used', set()))}
    except TimeoutError as e:   # a function whose paths cannot be enumerated in the budget: undecided, never a violation
        return {'key': key, 'status': 'out_of_reach', 'reason': str(e), 'paths': 0, 'vcs': [], 'file': None, 'span': None,
                'sha256': None, 'inlined': [], 'notes': [], 'gen_s': round(time.time() - t0, 2)}
    except Exception as e:   # engine crash: reported as out of reach, never as a violation
        return {'key': key, 'status': 'engine_error', 'reason': '%s: %s' % (type(e).__name__, e),
                'trace': traceback.format_exc()[-1500:], 'paths': 0, 'vcs': [], 'file': None, 'span': None,
                'sha256': None, 'inlined': [], 'notes': [], 'gen_s': round(time.time() - t0, 2)}
    finally:
        try:
            signal.alarm(0)
        except (ValueError, AttributeError):
            pass


def _solve(job):
    from pyvc import smt
    name, smt2, timeout = job
    r = smt.discharge(smt2, timeout=timeout, workdir=os.environ.get('VERIF_SCRATCH'))
    r['name'] = name
    return r


RETRY_TIMEOUT = 30
GEN_LIMIT = int(os.environ.get('VERIF_GEN_LIMIT', '600'))     # seconds of VC generation per function (thorough: 2400)


def run_contract_obligations(keys, tier, nproc, kinds=None):
    timeout = 10 if tier == 'quick' else 60
    ctx = mp.get_context('fork')
    t0 = time.time()
    with ctx.Pool(min(nproc, max(1, len(keys)))) as pool:
        gens = pool.map(_gen, keys, chunksize=1)
    t_gen = time.time() - t0
    if kinds is not None:
        for g in gens:
            g['vcs'] = [vc for vc in g['vcs'] if vc['kind'] in kinds]
    jobs = []
    for g in gens:
        for vc in g['vcs']:
            jobs.append((vc['name'], vc['smt2'], timeout))
    t1 = time.time()
    with ctx.Pool(nproc) as pool:
        sols = pool.map(_solve, jobs, chunksize=1) if jobs else []
    by_name = {s['name']: s for s in sols}
    # obligations that were discharged on the unchanged tree (baseline) and are not now: one extended attempt before the
    # verdict, so that a loaded machine cannot turn a slow proof into an alarm
    from framework.report import load_baseline, base_name
    base = load_baseline().get('discharged', {})
    again = [(n, s2, RETRY_TIMEOUT) for (n, s2, _) in jobs
             if by_name[n]['status'] not in ('unsat', 'sat') and base_name(n) in base]
    if again:
        with ctx.Pool(nproc) as pool:
            for s in pool.map(_solve, again[:32], chunksize=1):
                if s['status'] in ('unsat', 'sat'):
                    by_name[s['name']] = s
    t_solve = time.time() - t1
    return gens, by_name, t_gen, t_solve


def main():
    ap = argparse.ArgumentParser()
    ap.add_argument('--property', required=True)
    ap.add_argument('--tier', default=os.environ.get('VERIF_TIER', 'quick'))
    ap.add_argument('--replay')
    ap.add_argument('--nproc', type=int, default=int(os.environ.get('VERIF_NPROC', '16')))
    ap.add_argument('--skip-bounded', action='store_true')
    args = ap.parse_args()
    pid = args.property
    tier = args.tier if args.tier in ('quick', 'thorough') else 'quick'
    global GEN_LIMIT
    if tier == 'thorough' and 'VERIF_GEN_LIMIT' not in os.environ:
        GEN_LIMIT = 2400
    seed = int(os.environ.get('VERIF_SEED', '0') or 0)
    t_start = time.time()
    scratch = os.path.join(HERE, 'scratch', pid)
    os.makedirs(scratch, exist_ok=True)
    os.environ['VERIF_SCRATCH'] = scratch

    from framework import report
    from framework.props import PROPS
    if pid not in PROPS:
        print('unknown property', pid)
        sys.exit(3)
    prop = PROPS[pid]
    if args.replay:
        from framework import replay
        sys.exit(replay.run(pid, args.replay))

    from contracts import build_world
    world = build_world()
    keys = sorted(set(world.property_funcs.get(pid, [])) | set(prop.get('extra_functions', [])))
    if tier != 'thorough':
        keys = [k for k in keys if k not in world.thorough_only]
    frames_only = bool(prop.get('frames_of'))
    for other in prop.get('frames_of', []):
        keys = sorted(set(keys) | set(k for k in world.property_funcs.get(other, []) if tier == 'thorough' or k not in world.thorough_only))
    rep = report.Report(pid, tier, seed, prop)

    # ---- B drivers are started first and run beside the solvers (collected below)
    running = []
    if not args.skip_bounded:
        for bname in prop.get('bounded', []):
            running.append((bname, start_bounded(bname, pid, tier, seed, scratch)))

    # ---- P: contract obligations
    gens, sols, t_gen, t_solve = run_contract_obligations(keys, tier, max(2, args.nproc - len(running)),
                                                          kinds=('frame', 'frame_global') if frames_only else None) if keys else ([], {}, 0, 0)
    rep.add_contract_results(gens, sols, t_gen, t_solve, world)

    # ---- G: ground obligations
    for gname in prop.get('ground', []):
        mod = importlib.import_module('ground.' + gname.split(':')[0])
        fn = getattr(mod, gname.split(':')[1])
        rep.add_ground(gname, fn(tier))

    # ---- B: bounded stand-ins (run under the interpreter the baseline uses)
    for bname, h in running:
        rep.add_bounded(bname, finish_bounded(h))

    code = rep.finish(time.time() - t_start)
    sys.exit(code)


def start_bounded(bname, pid, tier, seed, scratch):
    """bounded drivers are separate scripts run with /venv/bin/python (3.12, the baseline interpreter)"""
    script = os.path.join(HERE, 'bounded', bname + '.py')
    out = os.path.join(scratch, 'bounded_%s_%d.json' % (bname, os.getpid()))
    if os.path.exists(out):
        os.unlink(out)
    env = dict(os.environ)
    env['PYTHONPATH'] = REPO + os.pathsep + HERE
    env['VERIF_TIER'] = tier
    env['VERIF_SEED'] = str(seed)
    budget = 400 if tier == 'quick' else 3000
    errf = open(out + '.err', 'w')
    p = subprocess.Popen(['/venv/bin/python', script, '--property', pid, '--out', out, '--tier', tier],
                         env=env, cwd=REPO, stdout=errf, stderr=errf, text=True)
    return {'proc': p, 'out': out, 'budget': budget, 't0': time.time(), 'errf': errf}


def finish_bounded(h):
    p = h['proc']
    try:
        p.wait(timeout=max(1, h['budget'] - (time.time() - h['t0'])))
    except subprocess.TimeoutExpired:
        p.kill()
        return {'status': 'timeout', 'detail': 'bounded driver exceeded %ds' % h['budget'], 'evaluations': 0, 'failures': []}
    finally:
        h['errf'].close()
    err = ''
    try:
        err = open(h['out'] + '.err').read()[-1500:]
        os.unlink(h['out'] + '.err')
    except OSError:
        pass
    if os.path.exists(h['out']):
        with open(h['out']) as f:
            r = json.load(f)
        os.unlink(h['out'])
        r['stderr_tail'] = err[-300:]
        return r
    return {'status': 'crash', 'detail': err, 'evaluations': 0, 'failures': []}


if __name__ == '__main__':
    try:
        main()
    except SystemExit:
        raise
    except BaseException:
        # a crash of the checker is never a verdict about the property
        traceback.print_exc()
        print('CHECKER-CRASH property=%s' % ' '.join(sys.argv[1:]))
        sys.exit(3)
