"""Ground obligations over the per-version structure tables (finite, exhaustive): the table preconditions of
the encoder/decoder contracts (C01, C02) instantiated at every row, and the position lemma executed on every row
with the real code.  Runs in the check process (python3-vt): hl7apy is pure stdlib."""
import importlib
import os
import time

VERSIONS = ['2.1', '2.2', '2.3', '2.3.1', '2.4', '2.5', '2.5.1', '2.6', '2.7', '2.8', '2.8.1', '2.8.2']


def lib(v):
    return importlib.import_module('hl7apy.v%s' % v.replace('.', '_'))


def leaf_for(version, dt):
    from bounded.lib import LEAF
    return LEAF.get(dt, 'X')


def twf_segments(tier):
    """twf_segment(v, S): the children of S are exactly S_1..S_n in order (the position <-> name map IS the table)"""
    checked = 0
    failures = []
    samples = []
    for v in VERSIONS:
        L = lib(v)
        for seg, ref in sorted(L.SEGMENTS.items()):
            if seg == 'ANYHL7SEGMENT':
                continue
            try:
                kids = ref[1]
                names = [c[0] for c in kids]
            except Exception as e:
                failures.append({'id': 'segment-table-shape:%s:%s' % (v, seg), 'family': 'segment-table-shape:%s:%s' % (v, seg),
                                 'text': 'v%s segment %s: malformed definition %r (%s)' % (v, seg, ref, e)})
                checked += 1
                continue
            if not names:
                failures.append({'id': 'segment-empty:%s:%s' % (v, seg), 'family': 'segment-empty:%s:%s' % (v, seg),
                                 'text': 'v%s segment %s declares no fields' % (v, seg)})
            for i, n in enumerate(names):
                checked += 1
                want = '%s_%d' % (seg, i + 1)
                if n != want:
                    failures.append({'id': 'table-gap:%s:%s:%s@%d' % (v, seg, n, i + 1),
                                     'family': 'table-gap:%s:%s' % (v, seg),
                                     'text': 'v%s %s: position %d is named %s (expected %s): the field is encoded at / parsed '
                                             'from the wrong index' % (v, seg, i + 1, n, want)})
            if len(samples) < 2:
                samples.append({'version': v, 'segment': seg, 'children': names[:6]})
    return {'checked': checked, 'failures': failures, 'samples': samples,
            'rule': 'every (version, segment, position) row: child name == <SEG>_<position>', 'exhaustive': True}


def twf_datatypes(tier):
    checked = 0
    failures = []
    samples = []
    for v in VERSIONS:
        L = lib(v)
        for dt, kids in sorted(L.DATATYPES_STRUCTS.items()):
            names = [c[0] for c in kids]
            for i, n in enumerate(names):
                checked += 1
                want = '%s_%d' % (dt, i + 1)
                if n != want:
                    failures.append({'id': 'datatype-gap:%s:%s:%s@%d' % (v, dt, n, i + 1), 'family': 'datatype-gap:%s:%s' % (v, dt),
                                     'text': 'v%s datatype %s: component %d is named %s (expected %s)' % (v, dt, i + 1, n, want)})
            if len(samples) < 2:
                samples.append({'version': v, 'datatype': dt, 'components': names[:6]})
    return {'checked': checked, 'failures': failures, 'samples': samples,
            'rule': 'every (version, complex datatype, component position) row: name == <DT>_<position>', 'exhaustive': True}


def constructible(tier):
    """every segment / complex datatype a version declares can be instantiated (both validation levels)"""
    from hl7apy.core import Segment, Field, Component
    checked = 0
    failures = []
    samples = []
    for v in VERSIONS:
        L = lib(v)
        for seg in sorted(L.SEGMENTS):
            if seg == 'ANYHL7SEGMENT':
                continue        # wildcard placeholder used inside message structures, not a segment definition
            for lvl in (1, 2):
                checked += 1
                try:
                    Segment(seg, version=v, validation_level=lvl)
                except Exception as e:
                    failures.append({'id': 'segment-not-constructible:%s:%s:%d' % (v, seg, lvl),
                                     'family': 'segment-not-constructible:%s:%s' % (v, seg),
                                     'text': "Segment(%r, version=%r, validation_level=%d) raises %s: %s"
                                             % (seg, v, lvl, type(e).__name__, e)})
        for dt in sorted(L.DATATYPES_STRUCTS):
            for lvl in (1, 2):
                checked += 1
                try:
                    Component(datatype=dt, version=v, validation_level=lvl) if lvl == 2 else Field(datatype=dt, version=v, validation_level=2)
                except Exception as e:
                    failures.append({'id': 'datatype-not-constructible:%s:%s:%d' % (v, dt, lvl),
                                     'family': 'datatype-not-constructible:%s:%s' % (v, dt),
                                     'text': 'datatype %s v%s cannot be instantiated: %s: %s' % (dt, v, type(e).__name__, e)})
    samples.append({'call': "Segment('PID', version='2.5', validation_level=1)"})
    return {'checked': checked, 'failures': failures, 'samples': samples,
            'rule': 'every (version, segment) x {STRICT, TOLERANT} and every (version, complex datatype): constructor returns',
            'exhaustive': True}


def positions(tier):
    """C02 position lemma on every well-formed row, executed on the real code: assigning field i by name and encoding
    puts the value after exactly i separators; parsing that text yields it under the same name.
    quick: every segment, positions {1, 2, middle, last}; thorough: every position."""
    from hl7apy.core import Segment
    from hl7apy.parser import parse_segment
    checked = 0
    failures = []
    samples = []
    t0 = time.time()
    for v in VERSIONS:
        L = lib(v)
        for seg, ref in sorted(L.SEGMENTS.items()):
            try:
                kids = ref[1]
                names = [c[0] for c in kids]
            except Exception:
                continue
            if not names or any(n != '%s_%d' % (seg, i + 1) for i, n in enumerate(names)):
                continue        # reported by twf_segments
            n = len(names)
            idxs = range(n)      # exhaustive in both tiers (about 20 s)
            for i in idxs:
                if seg == 'MSH' and i < 2:
                    continue
                child = kids[i]
                cref = child[1]
                dt = cref[2] if len(cref) > 2 else None
                value = leaf_for(v, first_leaf_dt(L, cref))
                checked += 1
                try:
                    s = Segment(seg, version=v)
                    setattr(s, names[i].lower(), value)
                    text = s.to_er7()
                    nsep = i + 1 if seg != 'MSH' else i
                    want = seg + '|' * nsep + value
                    if text != want:
                        failures.append({'id': 'position:%s:%s:%d' % (v, seg, i + 1), 'family': 'position:%s:%s' % (v, seg),
                                         'text': 'v%s %s.%s = %r encodes as %r, expected %r' % (v, seg, names[i], value, text, want)})
                        continue
                    p = parse_segment(want, version=v)
                    got = getattr(p, names[i].lower()).to_er7() if seg != 'MSH' else None
                    if seg != 'MSH' and got != value:
                        failures.append({'id': 'parse-position:%s:%s:%d' % (v, seg, i + 1), 'family': 'parse-position:%s:%s' % (v, seg),
                                         'text': 'v%s parse_segment(%r).%s is %r, expected %r' % (v, want, names[i], got, value)})
                except Exception as e:
                    failures.append({'id': 'position-exc:%s:%s:%d' % (v, seg, i + 1), 'family': 'position-exc:%s:%s' % (v, seg),
                                     'text': 'v%s %s.%s = %r raises %s: %s' % (v, seg, names[i], value, type(e).__name__, e)})
                if len(samples) < 3:
                    samples.append({'version': v, 'field': names[i], 'value': value, 'encoded': seg + '|' * (i + 1) + value})
    return {'checked': checked, 'failures': failures, 'samples': samples,
            'rule': 'segment field positions of every well-formed segment definition, real Segment/parse_segment executed',
            'exhaustive': True, 'wall_s': round(time.time() - t0, 1)}


def first_leaf_dt(L, cref):
    """datatype of the first leaf below a field reference (the value assigned lands in component 1 / subcomponent 1)"""
    seen = 0
    while cref[0] != 'leaf' and cref[1] and seen < 5:
        cref = cref[1][0][1]
        seen += 1
    return cref[2] if len(cref) > 2 else 'ST'


def open_ended(tier):
    """C02: Z-segments and segments whose last field is `varies` accept any index 1..N and encode every populated
    field at its own index, whatever the order in which the fields were populated (executed on the real code)."""
    from hl7apy.core import Segment
    from hl7apy.parser import parse_segment
    import itertools
    checked = 0
    failures = []
    samples = []
    for v in VERSIONS:
        L = lib(v)
        cands = [('ZIN', 0), ('ZZ1', 0)]
        for seg, ref in sorted(L.SEGMENTS.items()):
            try:
                kids = ref[1]
                if kids and kids[-1][1][2] == 'varies' and all(c[0] == '%s_%d' % (seg, i + 1) for i, c in enumerate(kids)):
                    cands.append((seg, len(kids)))
            except Exception:
                continue
        for seg, n in cands:
            orders = [[n + 7, n + 2], [n + 2, n + 7], [n + 40, n + 1, n + 12], [n + 3, n + 2, n + 1]]
            if tier == 'thorough':
                orders += [list(p) for p in itertools.permutations([n + 1, n + 5, n + 9, n + 120])]
            for order in orders:
                checked += 1
                try:
                    s = Segment(seg, version=v)
                    for i in order:
                        setattr(s, '%s_%d' % (seg.lower(), i), 'V%d' % i)
                    text = s.to_er7()
                    cols = text.split('|')
                    bad = [i for i in order if len(cols) <= i or cols[i] != 'V%d' % i]
                    extra = [j for j, c in enumerate(cols) if j > 0 and c and j not in order]
                    if bad or extra:
                        failures.append({'id': 'open-ended:%s:%s:%s' % (v, seg, order), 'family': 'open-ended:%s:%s' % (v, seg),
                                         'text': 'v%s %s populated in the order %s encodes as %r (fields %s misplaced or lost)' % (v, seg, order, text, bad or extra)})
                        continue
                    p = parse_segment(text, version=v)
                    miss = [i for i in order if getattr(p, '%s_%d' % (seg.lower(), i)).to_er7() != 'V%d' % i]
                    if miss or p.to_er7() != text:
                        failures.append({'id': 'open-ended-parse:%s:%s:%s' % (v, seg, order), 'family': 'open-ended-parse:%s:%s' % (v, seg),
                                         'text': 'v%s parse_segment(%r): fields %s not found under their names' % (v, text, miss)})
                except Exception as e:
                    failures.append({'id': 'open-ended-exc:%s:%s:%s' % (v, seg, order), 'family': 'open-ended-exc:%s:%s' % (v, seg),
                                     'text': 'v%s %s order %s raised %s: %s' % (v, seg, order, type(e).__name__, e)})
            if len(samples) < 2:
                samples.append({'version': v, 'segment': seg, 'orders': orders[:2]})
    return {'checked': checked, 'failures': failures, 'samples': samples, 'exhaustive': False,
            'rule': 'open-ended segments x population orders (ascending, descending, mixed, far indices)'}


def twf_groups(tier):
    """data invariants assumed by the group-search contract (C08), instantiated at every message structure and nested
    group of every version: a structure is ('sequence', children); every child entry is a 4-sequence (name, reference,
    (min, max), 'SEG' | 'GRP') - a tuple at the top level, a list inside groups: read-only records for the contract; a GRP entry carries a
    (kind, children) reference"""
    checked = 0
    failures = []
    samples = []

    def bad(v, m, path, why):
        failures.append({'id': 'group-table-shape:%s:%s:%s' % (v, m, '/'.join(path)), 'family': 'group-table-shape:%s:%s' % (v, m),
                         'text': 'v%s %s at %s: %s' % (v, m, '/'.join(path) or '<root>', why)})

    def walk(v, m, ref, path, depth):
        nonlocal checked
        checked += 1
        if not (isinstance(ref, tuple) and len(ref) == 2 and ref[0] in ('sequence', 'choice') and isinstance(ref[1], tuple)):
            bad(v, m, path, 'not a (\'sequence\' | \'choice\', children) pair: %s' % repr(ref)[:80])
            return
        for e in ref[1]:
            checked += 1
            if not (isinstance(e, (tuple, list)) and len(e) == 4 and isinstance(e[0], str) and e[3] in ('SEG', 'GRP')
                    and isinstance(e[2], tuple) and len(e[2]) == 2):
                bad(v, m, path, 'malformed child entry %r' % (e[:1],))
                continue
            if e[3] == 'GRP':
                if e[1] is None:
                    bad(v, m, path + [e[0]], 'GRP entry without a reference')
                elif depth < 12:
                    walk(v, m, e[1], path + [e[0]], depth + 1)
            elif e[1] is None and e[0] != 'ANYHL7SEGMENT':
                # _get_segment_reference reports "not found" by returning the entry's reference: an entry without one
                # is never found, and group finding leaves the segment directly under the message
                failures.append({'id': 'seg-entry-without-reference:%s:%s:%s' % (v, m, '/'.join(path + [e[0]])),
                                 'family': 'seg-entry-without-reference:%s:%s' % (v, m),
                                 'text': 'v%s %s: the SEG entry %s has no reference (None): parse_message(..., find_groups=True) '
                                         'places %s directly under the message, where it is not a declared child'
                                         % (v, m, '/'.join(path + [e[0]]), e[0])})
    for v in VERSIONS:
        L = lib(v)
        for m, ref in sorted(L.MESSAGES.items()):
            walk(v, m, ref, [], 0)
            if len(samples) < 2:
                samples.append({'version': v, 'message': m, 'children': [e[0] for e in ref[1]][:8]})
    return {'checked': checked, 'failures': failures, 'samples': samples,
            'rule': 'one obligation per structure node and per child entry of every message structure of every version',
            'exhaustive': True}
