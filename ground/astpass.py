"""Package-wide syntactic passes over the real AST (total over all functions of the non-table modules), discharging
the dependency (`reads`) clauses of C17 and the frame (`modifies`) clauses of C19 for the functions that are outside
the symbolic executor's reach:

C17  forwarding: a call of a function that owns a defaultable parameter p in {version, validation_level,
     encoding_chars} passes p whenever the caller has a value for it in scope (its own parameter p, or self.p on an
     Element / BaseDataType method); and every call of a get_default_* getter is guarded by `p is None` (or `p or ...`).
C19  ownership: no function writes a process-wide object: no `global` rebinding outside the set_default_* setters, no
     in-place mutation of a module-level or class-level container, no new module-level mutable cache that a function
     mutates.

Each violation is a call site / statement (file:function:detail) - the identity used by KNOWN_FINDINGS.json."""
import ast
import os

REPO = os.environ.get('HL7APY_REPO', '/repo')
MODULES = ['hl7apy/__init__.py', 'hl7apy/core.py', 'hl7apy/parser.py', 'hl7apy/validation.py', 'hl7apy/factories.py',
           'hl7apy/base_datatypes.py', 'hl7apy/utils.py', 'hl7apy/mllp.py', 'hl7apy/v2_7/base_datatypes.py']
VERSION_INITS = ['hl7apy/v2_%s/__init__.py' % v for v in ('1', '2', '3', '3_1', '4', '5', '5_1', '6', '7', '8', '8_1', '8_2')]
PARAMS = ('version', 'validation_level', 'encoding_chars')
GETTERS = {'get_default_version': 'version', 'get_default_validation_level': 'validation_level',
           'get_default_encoding_chars': 'encoding_chars'}
MUTATORS = {'append', 'add', 'update', 'setdefault', 'pop', 'popitem', 'clear', 'extend', 'insert', 'remove', 'sort',
            'reverse', 'discard', 'appendleft', '__setitem__', '__delitem__'}
ELEMENT_CLASSES = {'Element', 'SupportComplexDataType', 'CanBeVaries', 'SubComponent', 'Component', 'Field', 'Segment',
                   'Group', 'Message'}


def parse_all():
    trees = {}
    for rel in MODULES + VERSION_INITS:
        p = os.path.join(REPO, rel)
        if os.path.exists(p):
            with open(p) as f:
                trees[rel] = ast.parse(f.read())
    return trees


def signatures(trees):
    """callable name -> list of parameter names (functions, and classes through __init__)"""
    sigs = {}
    for rel, t in trees.items():
        if rel in VERSION_INITS:
            continue
        for n in t.body:
            if isinstance(n, ast.FunctionDef):
                sigs.setdefault(n.name, [a.arg for a in n.args.args])
            elif isinstance(n, ast.ClassDef):
                for m in n.body:
                    if isinstance(m, ast.FunctionDef) and m.name == '__init__':
                        sigs.setdefault(n.name, [a.arg for a in m.args.args][1:])
    return sigs


def functions(tree):
    """(qualname, node, class name or None) for every function definition"""
    out = []

    def walk(body, prefix, cls):
        for n in body:
            if isinstance(n, ast.FunctionDef):
                out.append(('.'.join(prefix + [n.name]), n, cls))
                walk(n.body, prefix + [n.name], cls)
            elif isinstance(n, ast.ClassDef):
                walk(n.body, prefix + [n.name], n.name)
            elif isinstance(n, (ast.If, ast.Try, ast.For, ast.While, ast.With)):
                for fld in ('body', 'orelse', 'finalbody'):
                    walk(getattr(n, fld, []) or [], prefix, cls)
                for h in getattr(n, 'handlers', []) or []:
                    walk(h.body, prefix, cls)
    walk(tree.body, [], None)
    return out


def own_nodes(fn):
    """nodes of a function body excluding nested function / class definitions"""
    stack = list(fn.body)
    while stack:
        n = stack.pop()
        yield n
        for c in ast.iter_child_nodes(n):
            if isinstance(c, (ast.FunctionDef, ast.ClassDef, ast.Lambda)):
                continue
            stack.append(c)


def callee_name(call):
    f = call.func
    if isinstance(f, ast.Name):
        return f.id
    if isinstance(f, ast.Attribute):
        return f.attr
    return None


# ---------------------------------------------------------------------------------------------------
def c17_forwarding(tier):
    trees = parse_all()
    sigs = signatures(trees)
    checked = 0
    failures = []
    samples = []
    for rel, t in trees.items():
        if rel in VERSION_INITS:
            continue
        for qual, fn, cls in functions(t):
            params = [a.arg for a in fn.args.args]
            has = {}
            for p in PARAMS:
                if p in params:
                    has[p] = p
                elif cls in ELEMENT_CLASSES and params[:1] == ['self'] and p in ('version', 'validation_level', 'encoding_chars') \
                        and fn.name not in ('__init__',):
                    has[p] = 'self.' + p
                elif cls and cls.endswith('DataType') and params[:1] == ['self'] and p == 'validation_level' and fn.name != '__init__':
                    has[p] = 'self.validation_level'
            for n in own_nodes(fn):
                if not isinstance(n, ast.Call):
                    continue
                name = callee_name(n)
                # (1) guarded getters
                if name in GETTERS:
                    checked += 1
                    p = GETTERS[name]
                    if fn.name == p and any(isinstance(d, ast.Name) and d.id == 'property' for d in fn.decorator_list):
                        continue        # the accessor that DEFINES self.<p> for a detached element: no argument to override
                    if not guarded(fn, n, p):
                        failures.append({'id': 'C17:unguarded-default:%s:%s:%s' % (rel, qual, name),
                                         'family': 'C17:unguarded-default:%s:%s:%s' % (rel, qual, name),
                                         'text': '%s: %s() calls %s() without a `%s is None` guard (line %d): the process default can '
                                                 'reach a call that was given %s explicitly' % (rel, qual, name, p, n.lineno, p)})
                    continue
                if name not in sigs or isinstance(n.func, ast.Attribute) and not is_package_callee(n.func):
                    continue
                cparams = sigs[name]
                for p in PARAMS:
                    if p not in cparams or p not in has:
                        continue
                    checked += 1
                    if passes(n, cparams, p):
                        if len(samples) < 3:
                            samples.append({'call': '%s:%s -> %s(... %s ...)' % (rel, qual, name, p)})
                        continue
                    if n.keywords and any(k.arg is None for k in n.keywords):
                        continue            # **kwargs: resolved by the symbolic executor / bounded drivers
                    failures.append({'id': 'C17:unforwarded:%s:%s:%s:%s' % (rel, qual, name, p),
                                     'family': 'C17:unforwarded:%s:%s:%s:%s' % (rel, qual, name, p),
                                     'text': '%s: %s() calls %s(...) at line %d without forwarding %s although it has %s: the callee '
                                             'falls back to the process default' % (rel, qual, name, n.lineno, p, has[p])})
    return {'checked': checked, 'failures': failures, 'samples': samples, 'exhaustive': True,
            'rule': 'every call site of a function with a defaultable parameter, and every call of a default getter, in the non-table modules'}


def is_package_callee(attr):
    """x.f(...) counts only for module-qualified calls and Element methods resolved by name elsewhere"""
    v = attr.value
    return isinstance(v, ast.Name) and v.id in ('parser', 'core', 'hl7apy', 'factories', 'Validator')


def passes(call, cparams, p):
    if any(k.arg == p for k in call.keywords):
        return True
    i = cparams.index(p)
    if len(call.args) > i and not any(isinstance(a, ast.Starred) for a in call.args[:i + 1]):
        return True
    return False


def guarded(fn, call, p):
    """the getter call sits under `if p is None:` / `if not p:` / in `p = p or getter()` / `x if p is not None else getter()`"""
    parents = {}
    for n in ast.walk(fn):
        for c in ast.iter_child_nodes(n):
            parents[c] = n
    cur = call
    while cur in parents:
        par = parents[cur]
        if isinstance(par, ast.If) and cur in par.body and mentions_none_test(par.test, p):
            return True
        if isinstance(par, ast.IfExp) and mentions_none_test(par.test, p):
            return True
        if isinstance(par, ast.BoolOp) and isinstance(par.op, ast.Or) and any(isinstance(v, ast.Name) and v.id == p for v in par.values):
            return True
        cur = par
    # a getter called in a function that has no such parameter and no self.p is a plain accessor (e.g. is_base_datatype(version=None))
    return False


def mentions_none_test(test, p):
    for n in ast.walk(test):
        if isinstance(n, ast.Compare) and len(n.ops) == 1 and isinstance(n.ops[0], (ast.Is, ast.Eq)):
            l, r = n.left, n.comparators[0]
            if isinstance(r, ast.Constant) and r.value is None and name_of(l) in (p, 'self.' + p):
                return True
        if isinstance(n, ast.UnaryOp) and isinstance(n.op, ast.Not) and name_of(n.operand) == p:
            return True
    return False


def name_of(n):
    if isinstance(n, ast.Name):
        return n.id
    if isinstance(n, ast.Attribute) and isinstance(n.value, ast.Name):
        return '%s.%s' % (n.value.id, n.attr)
    return None


# ---------------------------------------------------------------------------------------------------
ALLOWED_GLOBAL_WRITERS = {('hl7apy/__init__.py', 'set_default_validation_level'), ('hl7apy/__init__.py', 'set_default_version'),
                          ('hl7apy/__init__.py', 'set_default_encoding_chars')}


def c19_ownership(tier):
    trees = parse_all()
    checked = 0
    failures = []
    samples = []
    for rel, t in trees.items():
        mod_names = set()
        mod_mutable = set()
        classes = {}
        for n in t.body:
            for tgt in assigned_names(n):
                mod_names.add(tgt)
                if isinstance(n, ast.Assign) and is_mutable_ctor(n.value):
                    mod_mutable.add(tgt)
            if isinstance(n, ast.ClassDef):
                attrs = set()
                for m in n.body:
                    if isinstance(m, ast.Assign) and is_mutable_ctor(m.value):
                        attrs.update(assigned_names(m))
                classes[n.name] = attrs
            if isinstance(n, (ast.Import, ast.ImportFrom)):
                for a in n.names:
                    mod_names.add((a.asname or a.name).split('.')[0])
        for qual, fn, cls in functions(t):
            local = set(a.arg for a in fn.args.args) | set(a.arg for a in fn.args.kwonlyargs)
            if fn.args.vararg:
                local.add(fn.args.vararg.arg)
            if fn.args.kwarg:
                local.add(fn.args.kwarg.arg)
            globals_decl = set()
            for n in own_nodes(fn):
                if isinstance(n, ast.Global):
                    globals_decl.update(n.names)
                for tgt in (assigned_names(n) if isinstance(n, (ast.Assign, ast.AugAssign, ast.For, ast.With, ast.ImportFrom, ast.Import)) else []):
                    local.add(tgt)
                if isinstance(n, ast.ExceptHandler) and n.name:
                    local.add(n.name)
                if isinstance(n, (ast.ListComp, ast.SetComp, ast.DictComp, ast.GeneratorExp)):
                    for g in n.generators:
                        local.update(x.id for x in ast.walk(g.target) if isinstance(x, ast.Name))
            local -= globals_decl
            for n in own_nodes(fn):
                # (a) global rebinding
                if isinstance(n, ast.Global):
                    checked += 1
                    if (rel, fn.name) not in ALLOWED_GLOBAL_WRITERS:
                        failures.append(fail19(rel, qual, 'global-rebinding:%s' % ','.join(n.names), n,
                                               'declares `global %s`: a process-wide variable is rebound' % ', '.join(n.names)))
                # (b) stores / mutating calls whose target resolves to a module-level or class-level object
                target = None
                how = None
                if isinstance(n, (ast.Assign, ast.AugAssign, ast.Delete)):
                    tgts = n.targets if isinstance(n, (ast.Assign, ast.Delete)) else [n.target]
                    for tg in tgts:
                        if isinstance(tg, (ast.Subscript, ast.Attribute)):
                            base = root_of(tg.value)
                            checked += 1
                            owner = shared_owner(base, tg.value, local, mod_names, classes, cls, fn)
                            if owner:
                                failures.append(fail19(rel, qual, 'store-into:%s' % owner, n,
                                                       'stores into %s, which is shared by every caller in the process' % owner))
                if isinstance(n, ast.Call) and isinstance(n.func, ast.Attribute) and n.func.attr in MUTATORS:
                    base = root_of(n.func.value)
                    checked += 1
                    owner = shared_owner(base, n.func.value, local, mod_names, classes, cls, fn)
                    if owner:
                        failures.append(fail19(rel, qual, 'mutates:%s.%s' % (owner, n.func.attr), n,
                                               'calls %s.%s(...): in-place mutation of an object shared by every caller in the process'
                                               % (owner, n.func.attr)))
            if len(samples) < 2:
                samples.append({'function': '%s:%s' % (rel, qual), 'locals': sorted(local)[:6]})
    return {'checked': checked, 'failures': failures, 'samples': samples, 'exhaustive': True,
            'rule': 'every store / mutating call / global declaration in every function of the non-table modules and the '
                    'version packages\' __init__'}


def fail19(rel, qual, what, node, text):
    return {'id': 'C19:%s:%s:%s' % (rel, qual, what), 'family': 'C19:%s:%s:%s' % (rel, qual, what),
            'text': '%s: %s() %s (line %d)' % (rel, qual, text, node.lineno)}


def assigned_names(n):
    out = []
    tgts = []
    if isinstance(n, ast.Assign):
        tgts = n.targets
    elif isinstance(n, ast.AugAssign):
        tgts = [n.target]
    elif isinstance(n, ast.For):
        tgts = [n.target]
    elif isinstance(n, ast.With):
        tgts = [i.optional_vars for i in n.items if i.optional_vars is not None]
    elif isinstance(n, (ast.Import, ast.ImportFrom)):
        return [(a.asname or a.name).split('.')[0] for a in n.names]
    for t in tgts:
        for x in ast.walk(t):
            if isinstance(x, ast.Name) and isinstance(x.ctx, ast.Store):
                out.append(x.id)
    return out


def is_mutable_ctor(v):
    if isinstance(v, (ast.Dict, ast.List, ast.Set, ast.DictComp, ast.ListComp, ast.SetComp)):
        return True
    if isinstance(v, ast.Call):
        n = callee_name(v)
        return n in ('dict', 'list', 'set', 'defaultdict', 'OrderedDict', 'deque', 'Counter', 'WeakValueDictionary', 'lru_cache')
    return False


def root_of(e):
    while isinstance(e, (ast.Attribute, ast.Subscript, ast.Call)):
        e = e.value if not isinstance(e, ast.Call) else e.func
    return e


def shared_owner(base, expr, local, mod_names, classes, cls, fn):
    """name of the process-wide object the expression denotes, or None"""
    if not isinstance(base, ast.Name):
        return None
    b = base.id
    if b in local:
        # self.<class-level mutable attribute> mutated in place (class attributes are shared by all instances)
        if b == 'self' and cls in classes and isinstance(expr, ast.Attribute) and isinstance(expr.value, ast.Name) \
                and expr.value.id == 'self' and expr.attr in classes[cls] and not assigns_attr(fn, expr.attr):
            return 'class attribute %s.%s' % (cls, expr.attr)
        if b == 'cls':
            return 'class object (cls)'
        return None
    if b in classes or b in mod_names:
        if isinstance(expr, ast.Name) or isinstance(expr, (ast.Attribute, ast.Subscript)):
            return 'module-level %s' % ast.unparse(expr)[:40]
    return None


def assigns_attr(fn, attr):
    """the function (re)binds self.attr itself before using it: a per-instance object"""
    for n in ast.walk(fn):
        if isinstance(n, ast.Assign):
            for t in n.targets:
                if isinstance(t, ast.Attribute) and isinstance(t.value, ast.Name) and t.value.id == 'self' and t.attr == attr:
                    return True
    return False
