#!/bin/sh
# Harmless-edit self-test: renamed locals, reordered independent statements, an extracted helper, comment noise in
# functions under contract (selftest/harmless.diff) must leave the checks at exit 0 with the same obligations.
# Runs on a scratch worktree of /repo's HEAD; /repo itself is not touched.
set -e
WT=/tmp/harmless_wt_$$
git -C /repo worktree add -q --detach $WT HEAD
trap 'git -C /repo worktree remove --force $WT; rm -rf /tmp/harmless_out_$$' EXIT
git -C $WT apply /verif/selftest/harmless.diff
cd /verif
rc=0
for p in ${@:-C04 C07 C08 C09 C10 C12 C13 C15 C16 C18}; do
  out=$(VERIF_OUT=/tmp/harmless_out_$$ HL7APY_REPO=$WT PYTHONPATH=$WT python3-vt check.py --property $p 2>&1) || rc=1
  echo "$out" | grep -E "^(SUMMARY|VIOLATION|UNDECIDED)" | cut -c1-220
done
exit $rc
