"""Differential self-test of the VC generator's semantics against CPython (soundness evidence, not a property check).

For a corpus of (function, concrete argument) pairs the REAL function is run by CPython and, separately, executed by the
symbolic engine with SYMBOLIC parameters constrained to equal the arguments (so the z3 models of the builtins, of the
regular expressions and of strptime are exercised, not Python's own methods).  For every pair:
  * the outcome CPython produced (returned value / exception class) must be among the engine's feasible outcomes;
  * every other engine outcome must be infeasible (unsat) - an engine path that stays satisfiable although CPython does
    not take it is reported as DISAGREE unless the solver answers unknown (then UNDETERMINED).
  * when the returned value is a str / int / bool / None built without uninterpreted functions, the value is compared.

usage: PYTHONPATH=/repo python3-vt selftest/diff_engine.py      exit 0 = no disagreement
"""
import importlib
import os
import sys
import time

sys.path.insert(0, os.path.dirname(os.path.dirname(os.path.abspath(__file__))))
os.environ.setdefault('HL7APY_REPO', '/repo')
sys.path.insert(0, os.environ['HL7APY_REPO'])
import z3  # noqa

from contracts import build_world  # noqa
from pyvc import source  # noqa
from pyvc.engine import Raised, SV, State, Frame, ExcVal  # noqa
from pyvc.spec import Verifier  # noqa

DATES = ['2020', '202001', '20200131', '20200231', '2020013', '', 'abcd', '20201301', '0000', '99991231', '2020 1', '２０２０', '20200131 ']
TIMES = ['12', '1201', '120159', '120159.1', '120159.1234', '2460', '1260', '12015', '120159.', '120159.12345', '1201+0100', '1201-0530',
         '12+01', '120159.12+0100', '1201+2500', '1201+01', '+0100', '1201+01000', '1201*0100', '', 'ab']
DTMS = ['2020', '202001', '20200131', '2020013112', '202001311201', '20200131120159', '20200131120159.1234', '20200131120159.1234+0100',
        '202001311201-0500', '20200131 1201', '2020013112015', '20200131120159.12345', '', '20201331', '202001311201+9900', 'x']
MSGS = ['MSH|^~\\&|A|B|C|D|20200101||ADT^A01^ADT_A01|1|P|2.5\rPID|1', 'MSH|^~\\&|A|B|C|D|20200101||ADT^A01|1|P|2.3', 'MSH|^~\\&|',
        'MSH|^~\\&|A|B|C|D|20200101||ADT|1|P|2.5', 'PID|1', '', 'MSH', 'MSH|', 'MSH|^~\\', 'MSH|^^\\&|A|B|C|D|E||X^Y^Z|1|P|2.5',
        'MSH$^~\\&$A$B$C$D$E$$X^Y^Z$1$P$2.7', 'MSH|^~\\&#|A|B|C|D|E||X^Y^Z|1|P|2.7\rEVN|1', 'MSH|^~\\&|A|B|C|D|E||ACK|1|P|', 'MSH|^~\\&|A']
CORPUS = [
    ('hl7apy.utils:_get_date_format', 'value', DATES),
    ('hl7apy.utils:check_date', 'value', DATES),
    ('hl7apy.utils:_get_timestamp_format', 'value', TIMES),
    ('hl7apy.utils:_split_offset', 'value', TIMES + DTMS),
    ('hl7apy.utils:check_timestamp', 'value', TIMES),
    ('hl7apy.utils:check_datetime', 'value', DTMS),
    ('hl7apy.parser:get_message_type', 'content', MSGS),
    ('hl7apy:check_validation_level', 'validation_level', [1, 2, 0, 3, -1]),
]


def real_outcome(key, arg):
    mod, qual = key.split(':')
    f = importlib.import_module(mod)
    for p in qual.split('.'):
        f = getattr(f, p)
    try:
        return ('return', f(arg))
    except Exception as e:   # noqa
        return ('raise', type(e).__name__)


def has_uf(e, seen=None):
    seen = seen if seen is not None else set()
    if e.get_id() in seen:
        return False
    seen.add(e.get_id())
    if z3.is_app(e) and e.decl().kind() == z3.Z3_OP_UNINTERPRETED and e.num_args() > 0:
        return True
    return any(has_uf(c, seen) for c in e.children())


def engine_outcomes(v, key, pname, arg):
    c = v.world.contracts[key]
    fs = source.get_func(key)
    v.cur_contract = c
    v.top_key = c.key
    v.vcs = []
    v.index_loops(fs)
    mod = v.module_of(fs)
    cls = getattr(mod, fs.cls_name, None) if fs.cls_name else None
    st, env, closure = v.entry_state(c, fs)
    p = env[pname]
    if isinstance(arg, str):
        st = st.assume(v.term(p, 'S') == z3.StringVal(arg))
    else:
        from pyvc.engine import Val
        st = st.assume(p.term == Val.VInt(arg)) if p.ty.kind == 'any' else st.assume(p.term == arg)
    fr = Frame(fs, mod, cls, closure)
    st1 = st.copy()
    st1.locals = dict(env)
    outs = []
    ax = v.global_axioms()
    for st2, out in v.exec_block(fs.body(), st1, fr):
        s = z3.Solver()
        s.set('timeout', 3000)
        for a in ax:
            s.add(a)
        for a in st2.pc:
            s.add(a)
        r = s.check()
        if r == z3.unsat:
            continue
        if out[0] == 'raise':
            exc = out[1]
            name = exc.cls.__name__ if isinstance(exc, ExcVal) else str(exc)
            outs.append((str(r), 'raise', name))
        else:
            val = out[1] if out[0] == 'return' else None
            shown = '?'
            if val is None or (isinstance(val, SV) and val.is_py and val.py is None):
                shown = None
            elif isinstance(val, SV) and val.is_py and isinstance(val.py, (str, int, bool)):
                shown = val.py
            elif isinstance(val, SV) and not val.is_py and val.ty.kind in ('str', 'int', 'bool') and r == z3.sat and not has_uf(val.term):
                m = s.model().eval(val.term, model_completion=True)
                shown = m.as_string() if val.ty.kind == 'str' else (z3.is_true(m) if val.ty.kind == 'bool' else m.as_long())
            outs.append((str(r), 'return', shown))
    return outs


def main():
    w = build_world()
    v = Verifier(w)
    n = agree = und = 0
    bad = []
    t0 = time.time()
    for key, pname, args in CORPUS:
        for arg in args:
            n += 1
            real = real_outcome(key, arg)
            try:
                outs = engine_outcomes(v, key, pname, arg)
            except Exception as e:   # engine limits are not disagreements
                und += 1
                print('UNDETERMINED %s(%r): engine: %s: %s' % (key, arg, type(e).__name__, str(e)[:100]))
                continue
            def matches(o):
                if o[1] != real[0]:
                    return False
                if real[0] == 'raise':
                    return o[2] == real[1]
                if o[2] == '?':
                    return True
                rv = real[1]
                if isinstance(rv, (str, int, bool)) or rv is None:
                    return o[2] == rv
                return True
            sat_outs = [o for o in outs if o[0] == 'sat']
            unk_outs = [o for o in outs if o[0] != 'sat']
            if not any(matches(o) for o in outs):
                bad.append((key, arg, real, outs))
            elif any(not matches(o) for o in sat_outs):
                bad.append((key, arg, real, outs))
            elif any(not matches(o) for o in unk_outs):
                und += 1
                print('UNDETERMINED %s(%r): real %r, extra engine outcome(s) with unknown feasibility %r' % (key, arg, real, unk_outs))
            else:
                agree += 1
    for key, arg, real, outs in bad:
        print('DISAGREE %s(%r): CPython %r, engine %r' % (key, arg, real, outs))
    print('diff_engine: %d cases, %d agree, %d undetermined, %d disagree, %.0fs' % (n, agree, und, len(bad), time.time() - t0))
    sys.exit(1 if bad else 0)


if __name__ == '__main__':
    main()
