"""BOUNDED stand-in for C04 (validate), C05 (STRICT vs TOLERANT) and C18 (message profiles).
Conforming instances are generated from the reference structure itself (required children only / all children),
then each single-point mutation of the statement is applied.  Bound: quick = 40 seeded message structures of 3 versions
(+ a fixed core list), thorough = every message structure of every version."""
import copy
import io
import os
import sys
import tempfile

from bounded.lib import *   # noqa

CORE = ['ADT_A01', 'ORU_R01', 'OML_O33', 'RSP_K21', 'ACK', 'QBP_Q21']


def fill_segment(seg, ref, version, full=False):
    """populate the required (or all) fields of a Segment from its reference; returns False if a field cannot be filled"""
    for name, cref, (mn, mx), kind in ref[1]:
        if seg.name == 'MSH' and name in ('MSH_1', 'MSH_2', 'MSH_7', 'MSH_9', 'MSH_12'):
            continue
        if mn < 1 and not full:
            continue
        text = field_text(cref, version, full)
        if text is None:
            return False
        setattr(seg, name.lower(), text)
    return True


def field_text(ref, version, full):
    if ref[0] == 'leaf' or not ref[1]:
        dt = ref[2]
        if dt == 'varies':
            return 'V'
        t = LEAF.get(dt)
        if ref[4] is not None:
            tv = table_value(ref[4], version)
            if tv is not None:
                t = tv
        return t
    comps = []
    for cname, cref, (mn, mx), kind in ref[1]:
        if mx == 0 or (mn < 1 and not full and any(comps)):
            comps.append('')        # (max 0: a withdrawn component must stay empty)
            continue
        if cref[0] == 'leaf' or not cref[1]:
            t = field_text(cref, version, full)
            comps.append(t or '')
        else:
            subs = []
            for sname, sref, (smn, smx), skind in cref[1]:
                if smx == 0 or (smn < 1 and not full and any(subs)):
                    subs.append('')
                    continue
                if sref[0] != 'leaf' and sref[1]:
                    return None
                subs.append(field_text(sref, version, full) or '')
            while subs and not subs[-1]:
                subs.pop()
            comps.append('&'.join(subs))
    while comps and not comps[-1]:
        comps.pop()
    return '^'.join(comps)


def table_value(table, version):
    try:
        t = lib(version).TABLES[table]
        vals = t[1]
        for v in vals:
            return v
    except Exception:
        return None
    return None


def build(parent, ref, version, level, full=False, depth=0):
    """add the required (or all) children described by ref to parent; returns False when the structure cannot be
    instantiated by this generator (reported as skipped, never as a failure)"""
    from hl7apy.core import Group, Segment
    for name, cref, (mn, mx), kind in ref[1]:
        if name == 'MSH':
            continue
        if mn < 1 and not full:
            continue
        if kind == 'SEG':
            if name == 'ANYHL7SEGMENT' or name.startswith('Z') or cref is None:
                if mn >= 1:
                    return False
                continue
            try:
                s = Segment(name, version=version, validation_level=level, reference=cref)
            except Exception:
                return False
            if not fill_segment(s, cref, version):
                return False
            parent.add(s)
        else:
            if cref is None or depth > 6:
                return False
            g = Group(name, version=version, validation_level=level, reference=cref)
            if not build(g, cref, version, level, full, depth + 1):
                return False
            if not g.children and not force_first(g, cref, version, level, depth + 1):
                return False
            parent.add(g)
    return True


def force_first(g, ref, version, level, depth):
    """a required group all of whose members are optional: an instance with no segment at all has no ER7 text, so the
    first member is instantiated (recursively for a leading group)"""
    from hl7apy.core import Group, Segment
    for name, cref, (mn, mx), kind in ref[1]:
        if kind == 'SEG':
            if name == 'ANYHL7SEGMENT' or name.startswith('Z') or cref is None:
                continue
            try:
                s = Segment(name, version=version, validation_level=level, reference=cref)
            except Exception:
                return False
            if not fill_segment(s, cref, version):
                return False
            g.add(s)
            return True
        if cref is None or depth > 6:
            return False
        sub = Group(name, version=version, validation_level=level, reference=cref)
        if not build(sub, cref, version, level, False, depth + 1):
            return False
        if not sub.children and not force_first(sub, cref, version, level, depth + 1):
            return False
        g.add(sub)
        return True
    return False


def has_duplicate_names(ref, depth=0):
    names = [c[0] for c in ref[1]]
    if len(set(names)) != len(names):
        return True
    return any(c[3] == 'GRP' and c[1] is not None and depth < 6 and has_duplicate_names(c[1], depth + 1) for c in ref[1])


def conforming(mname, version, level=2, reference=None):
    from hl7apy.core import Message
    L = lib(version)
    ref = L.MESSAGES[mname] if reference is None else reference[mname]
    m = Message(mname, version=version, validation_level=level, reference=reference)
    msh_ref = [c for c in ref[1] if c[0] == 'MSH']
    if not msh_ref:
        return None
    if has_duplicate_names(ref):
        return None          # the same child name at two places of one structure: outside this generator
    m.msh.msh_9 = '%s^%s^%s' % (mname.split('_')[0], mname.split('_')[1] if '_' in mname else 'A01', mname) if version >= '2.3.1' else mname.replace('_', '^')
    if not fill_segment(m.msh, msh_ref[0][1], version):
        return None
    if version == '2.1':
        # the v2.1 tables require the second component of MSH-7 (TS_2); Message() only sets the first
        m7 = [c for c in msh_ref[0][1][1] if c[0] == 'MSH_7'][0]
        m.msh.msh_7 = field_text(m7[1], version, False)
    if not build(m, ref, version, level):
        return None
    return m


def report(m, reference=None):
    from hl7apy.validation import Validator
    r = Validator.validate(m, reference=reference if reference is not None else m.reference, return_errors=True)
    return r


def main():
    a = args()
    R = Result('validation')
    from hl7apy.core import Message, Segment, Group
    from hl7apy.validation import Validator
    from hl7apy.exceptions import ValidationError
    r = rng()
    versions = VERSIONS if a.tier == 'thorough' else ['2.3.1', '2.5', '2.6']
    skipped = 0
    for v in versions:
        L = lib(v)
        names = sorted(L.MESSAGES)
        if a.tier != 'thorough':
            pick = [n for n in CORE if n in names]
            rest = [n for n in names if n not in pick]
            r.shuffle(rest)
            names = pick + rest[:12]
        for mname in names:
            try:
                m = conforming(mname, v)
            except Exception as e:
                skipped += 1
                continue
            if m is None:
                skipped += 1
                continue
            before = m.to_er7()
            try:
                rep = report(m)
            except Exception as e:
                R.fail('C04:validate-raises:%s:%s' % (v, mname), 'C04:validate-raises:%s' % type(e).__name__,
                       'v%s %s: validate(return_errors=True) raised %s: %s' % (v, mname, type(e).__name__, e))
                continue
            if m.to_er7() != before:
                R.fail('C04:validate-mutates:%s:%s' % (v, mname), 'C04:validate-mutates', 'v%s %s: validate() changed the encoding' % (v, mname))
                continue
            if rep.is_valid != (not rep.errors):
                R.fail('C04:is_valid-inconsistent:%s:%s' % (v, mname), 'C04:is_valid-inconsistent', 'is_valid %r with errors %r' % (rep.is_valid, rep.errors))
            if rep.errors:
                # the generator's notion of conforming may be narrower than the tables' (e.g. unknown datatypes): identity by first error kind
                R.fail('C04:conforming-rejected:%s:%s' % (v, mname), 'C04:conforming-rejected:%s:%s' % (v, mname),
                       'v%s %s built from its own required structure does not validate: %s' % (v, mname, [str(e) for e in rep.errors[:2]]))
                continue
            R.ok((v, mname, 'conforming'), {'version': v, 'message': mname, 'er7': before[:100]} if len(R.samples) < 2 else None)
            # raising form / report file
            try:
                ok = m.validate()
                if ok is not True:
                    R.fail('C04:raising-form:%s:%s' % (v, mname), 'C04:raising-form', 'validate() of a valid message returned %r' % (ok,))
            except Exception as e:
                R.fail('C04:raising-form:%s:%s' % (v, mname), 'C04:raising-form', 'validate() of a valid message raised %s' % e)
            ref = L.MESSAGES[mname]
            # ---- single-point mutations
            req = [(n, c, card, k) for n, c, card, k in ref[1] if card[0] >= 1 and n != 'MSH']
            for (n, c, card, k) in req[:3]:
                m2 = conforming(mname, v)
                try:
                    delattr(m2, n.lower())
                except Exception:
                    continue
                rep2 = report(m2)
                if not any('Missing required child' in str(e) and n in str(e) for e in rep2.errors):
                    R.fail('C04:missing-not-reported:%s:%s:%s' % (v, mname, n), 'C04:missing-not-reported',
                           'v%s %s without required %s: errors %s' % (v, mname, n, [str(e) for e in rep2.errors[:3]]))
                else:
                    R.ok((v, mname, 'missing', n))
                # raise-first and report file consistency
                try:
                    m2.validate()
                    R.fail('C04:raising-form-silent:%s:%s:%s' % (v, mname, n), 'C04:raising-form-silent', 'validate() returned on an invalid message')
                except ValidationError as e:
                    if str(e) != str(rep2.errors[0]):
                        R.fail('C04:raise-not-first:%s:%s:%s' % (v, mname, n), 'C04:raise-not-first', 'raised %s, first reported %s' % (e, rep2.errors[0]))
                except Exception as e:
                    R.fail('C04:raising-form-other:%s:%s:%s' % (v, mname, n), 'C04:raising-form-other:%s' % type(e).__name__, str(e))
                buf = io.StringIO()
                rep3 = Validator.validate(m2, reference=m2.reference, report_file=buf, return_errors=True)
                want = ''.join('Error: %s\n' % e for e in rep3.errors) + ''.join('Warning: %s\n' % w for w in rep3.warnings)
                if buf.getvalue() != want:
                    R.fail('C04:report-file:%s:%s:%s' % (v, mname, n), 'C04:report-file-mismatch', 'report %r, expected %r' % (buf.getvalue()[:200], want[:200]))
                # report path reused by a clean run must list exactly that run's (empty) findings
                fd, path = tempfile.mkstemp(suffix='.rep')
                os.close(fd)
                try:
                    Validator.validate(m2, reference=m2.reference, report_file=path, return_errors=True)
                    rep4 = Validator.validate(m, reference=m.reference, report_file=path, return_errors=True)
                    want4 = ''.join('Error: %s\n' % e for e in rep4.errors) + ''.join('Warning: %s\n' % w for w in rep4.warnings)
                    if open(path).read() != want4:
                        R.fail('C04:stale-report:%s:%s' % (v, mname), 'C04:stale-report-file',
                               'the report file of a later validation lists %r, that run reported %r' % (open(path).read()[:200], want4[:200]))
                finally:
                    os.unlink(path)
            # exceed a maximum cardinality
            capped = [(n, c, card, k) for n, c, card, k in ref[1] if card[1] == 1 and k == 'SEG' and n != 'MSH' and card[0] >= 1]
            for (n, c, card, k) in capped[:2]:
                m2 = conforming(mname, v)
                try:
                    s = Segment(n, version=v, reference=c)
                    fill_segment(s, c, v)
                    m2.add(s)
                except Exception:
                    continue
                rep2 = report(m2)
                if not any('Child limit exceeded' in str(e) and n in str(e) for e in rep2.errors):
                    R.fail('C04:limit-not-reported:%s:%s:%s' % (v, mname, n), 'C04:limit-not-reported',
                           'v%s %s with two %s: errors %s' % (v, mname, n, [str(e) for e in rep2.errors[:3]]))
                else:
                    R.ok((v, mname, 'limit', n))
            # a child the parent does not allow
            foreign = next((s for s in ('NTE', 'AL1', 'OBX', 'PV2', 'GT1') if s in L.SEGMENTS and not any(c[0] == s for c in ref[1])), None)
            if foreign:
                m2 = conforming(mname, v)
                try:
                    fs = Segment(foreign, version=v)
                    m2.add(fs)
                    rep2 = report(m2)
                    if rep2.is_valid:
                        R.fail('C04:foreign-accepted:%s:%s:%s' % (v, mname, foreign), 'C04:foreign-child-accepted',
                               'v%s %s with a foreign %s validates' % (v, mname, foreign))
                    else:
                        R.ok((v, mname, 'foreign', foreign))
                    # history: the foreign child is removed again - the message is the conforming one once more and the
                    # verdict must follow the children actually present, not what was once indexed (seed C04_c)
                    m2.children.remove(fs)
                    rep3 = report(m2)
                    base = report(conforming(mname, v))
                    stale = [str(e) for e in rep3.errors if 'Invalid children' in str(e)]
                    if m2.to_er7() == conforming(mname, v).to_er7() and (rep3.is_valid != base.is_valid or
                                                                        len(rep3.errors) != len(base.errors) or stale):
                        R.fail('C04:removed-foreign-still-reported:%s:%s:%s' % (v, mname, foreign), 'C04:removed-child-still-reported',
                               'v%s %s: %s added then removed (encoding back to the conforming message): errors %s' %
                               (v, mname, foreign, [str(e) for e in rep3.errors[:3]]))
                    else:
                        R.ok((v, mname, 'foreign-removed', foreign))
                except Exception:
                    pass
            # an emptied required group (children deleted, group still attached)
            grp = next(((n, c) for n, c, card, k in ref[1] if k == 'GRP' and card[0] >= 1 and c is not None
                        and any(cc[2][0] >= 1 for cc in c[1])), None)
            if grp:
                m2 = conforming(mname, v)
                try:
                    g = getattr(m2, grp[0].lower())[0]
                    for ch in list(g.children):
                        g.children.remove(ch)
                    rep2 = report(m2)
                    if rep2.is_valid:
                        R.fail('C04:empty-group-valid:%s:%s:%s' % (v, mname, grp[0]), 'C04:emptied-required-group-validates',
                               'v%s %s: %s emptied of its required children still validates' % (v, mname, grp[0]))
                    else:
                        R.ok((v, mname, 'emptygroup'))
                except Exception:
                    pass
            # ---- C05: the same structure built under STRICT draws no validator error other than a missing required child
            try:
                ms = conforming(mname, v, level=1)
                if ms is not None:
                    reps = report(ms)
                    bad = [str(e) for e in reps.errors if 'Missing required child' not in str(e)]
                    if bad:
                        R.fail('C05:strict-built-invalid:%s:%s' % (v, mname), 'C05:strict-built-draws-error', 'v%s %s built under STRICT: %s' % (v, mname, bad[:2]))
                    elif ms.to_er7() != m.to_er7().replace(m.msh.msh_7.to_er7(), ms.msh.msh_7.to_er7()):
                        R.fail('C05:strict-tolerant-encoding:%s:%s' % (v, mname), 'C05:strict-tolerant-encoding-differs', 'v%s %s' % (v, mname))
                    else:
                        R.ok((v, mname, 'strict'))
            except Exception as e:
                R.fail('C05:strict-build-raises:%s:%s' % (v, mname), 'C05:strict-rejects-conforming:%s' % type(e).__name__,
                       'v%s %s: building the conforming instance under STRICT raised %s: %s' % (v, mname, type(e).__name__, e))
            # ---- C18: a profile restating the standard structure changes nothing; a tightened profile is enforced
            if a.property == 'C18' or True:
                prof = {mname: L.MESSAGES[mname]}
                try:
                    mp = conforming(mname, v, reference=prof)
                    if mp is None:
                        raise RuntimeError('generator')
                    if mp.to_er7().replace(mp.msh.msh_7.to_er7(), '') != m.to_er7().replace(m.msh.msh_7.to_er7(), ''):
                        R.fail('C18:noop-profile-encoding:%s:%s' % (v, mname), 'C18:noop-profile-changes-encoding', 'v%s %s' % (v, mname))
                    elif not report(mp, prof[mname]).is_valid:
                        R.fail('C18:noop-profile-invalid:%s:%s' % (v, mname), 'C18:noop-profile-invalidates', 'v%s %s' % (v, mname))
                    else:
                        R.ok((v, mname, 'noop-profile'))
                except Exception as e:
                    R.fail('C18:noop-profile-raises:%s:%s' % (v, mname), 'C18:noop-profile-raises:%s' % type(e).__name__, 'v%s %s: %s' % (v, mname, e))
    # ---- C18: profile lookup, legacy detection, and threading of the profile's references through group repetitions
    from hl7apy.parser import parse_message
    from hl7apy.exceptions import MessageProfileNotFound, LegacyMessageProfile
    for v in versions:
        L = lib(v)
        if 'ORU_R01' not in L.MESSAGES or 'ADT_A01' not in L.MESSAGES:
            continue
        # (MSH-9 has two components before v2.3.1: a third one is rightly refused under STRICT)
        text = 'MSH|^~\\&|S|F|R|F|20200131||' + ('ORU^R01^ORU_R01' if v >= '2.3.1' else 'ORU^R01') + '|ID|P|%s\rPID|1||5\rOBR|1||X|C\rNTE|1||a\rOBX|1|ST|G||v\rOBR|2||Y|C\rNTE|1||b\rOBX|1|ST|G||w' % v
        for lvl in (None, 2, 1):
            try:
                parse_message(text, validation_level=lvl, message_profile={'ADT_A01': L.MESSAGES['ADT_A01']})
                R.fail('C18:profile-missing-structure:%s:%s' % (v, lvl), 'C18:missing-structure-not-reported',
                       'v%s level %s: a profile without ORU_R01 was silently ignored' % (v, lvl))
            except MessageProfileNotFound:
                R.ok((v, 'mpnf', lvl))
            except Exception as e:
                R.fail('C18:profile-missing-structure-exc:%s:%s' % (v, lvl), 'C18:missing-structure-other-exception:%s' % type(e).__name__, str(e))
        try:
            Message('ORU_R01', version=v, reference={'ADT_A01': L.MESSAGES['ADT_A01']})
            R.fail('C18:ctor-missing-structure:%s' % v, 'C18:missing-structure-not-reported', 'Message(ORU_R01, reference=<profile without it>) accepted')
        except MessageProfileNotFound:
            R.ok((v, 'ctor-mpnf'))
        try:
            Message('ORU_R01', version=v, reference={'ORU_R01': ('mp', 'legacy')})
            R.fail('C18:legacy:%s' % v, 'C18:legacy-profile-not-reported', 'legacy profile accepted')
        except LegacyMessageProfile:
            R.ok((v, 'legacy'))
        except Exception as e:
            R.fail('C18:legacy-exc:%s' % v, 'C18:legacy-profile-other-exception:%s' % type(e).__name__, str(e))
        # a profile that tightens NTE inside the repeatable ORDER_OBSERVATION group to (0, 1)
        def retighten(ref, depth=0):
            kids = []
            for n, c, card, k in ref[1]:
                if k == 'GRP' and c is not None and depth < 5:
                    c = retighten(c, depth + 1)
                if n == 'NTE' and depth >= 1:
                    card = (0, 1)
                kids.append((n, c, card, k))
            return (ref[0], tuple(kids)) + tuple(ref[2:])
        prof = {'ORU_R01': retighten(L.MESSAGES['ORU_R01'])}
        for lvl in (2, 1):
            try:
                m = parse_message(text, validation_level=lvl, message_profile=prof)
            except Exception as e:
                R.fail('C18:profile-parse:%s:%s' % (v, lvl), 'C18:profile-parse-raises:%s' % type(e).__name__, 'v%s: %s' % (v, e))
                continue
            groups = []

            def walk(el):
                for c in el.children:
                    if c.classname == 'Group':
                        groups.append(c)
                        walk(c)
            walk(m)
            oo = [g for g in groups if 'NTE' in (g.repetitions or {}) and g.name != 'ORU_R01']
            bad = [(g.name, g.repetitions['NTE']) for g in oo if tuple(g.repetitions['NTE']) != (0, 1)]
            if len(oo) < 2:
                R.fail('C18:profile-groups:%s:%s' % (v, lvl), 'C18:profile-group-repetitions-missing', 'v%s: %d groups carry NTE' % (v, len(oo)))
            elif bad:
                R.fail('C18:profile-threading:%s:%s' % (v, lvl), 'C18:group-repetition-ignores-profile',
                       'v%s level %d: group repetitions with the standard cardinality instead of the profile\'s (0, 1): %s' % (v, lvl, bad))
            else:
                R.ok((v, 'threading', lvl))
            # children created by add_* / traversal inside a profiled group take the profile's structure
            try:
                g = oo[-1]
                s = g.add_segment('NTE') if not g.nte else None
                if tuple(g.repetitions['NTE']) != (0, 1):
                    R.fail('C18:add-segment:%s:%s' % (v, lvl), 'C18:add-helper-ignores-profile', 'v%s' % v)
            except Exception:
                pass
            if lvl == 2:
                # two more NTE added through the API where the profile allows one: validate() judges against the profile
                g = oo[-1]
                for i in (2, 3):
                    s2 = g.add_segment('NTE')
                    s2.nte_1 = str(i)
                r2 = m.validate(return_errors=True)
                if not any('Child limit exceeded' in str(e) and 'NTE' in str(e) for e in r2.errors):
                    R.fail('C18:validate-against-profile:%s' % v, 'C18:validate-ignores-profile',
                           'v%s: three NTE where the profile allows one were not reported: %s' % (v, [str(e) for e in r2.errors[:4]]))
                else:
                    R.ok((v, 'validate-profile'))
    R.rule = 'conforming instance generated from the structure + each single-point mutation; distinct (version, message, mutation)'
    R.bound = '%d versions, %s message structures each (%d skipped: not instantiable by the generator)' % (
        len(versions), 'all' if a.tier == 'thorough' else 'core + 12 seeded', skipped)
    R.dump(a.out)


if __name__ == '__main__':
    try:
        main()
    except Exception:
        traceback.print_exc()
        sys.exit(3)
