"""BOUNDED stand-ins for C15 (only library exceptions), C17 (explicit arguments override the process defaults) and
C19 (concurrent use == sequential use; process-wide state untouched).
C15 bound: every truncation of 3 valid messages, every single-character deletion / duplication of a delimiter in the
header, 4- vs 5-character MSH-2, missing MSH-9 / MSH-12, unknown versions / segments, junk; both validation levels.
C17 bound: a call corpus with explicit arguments under every default version (12) x level (2) x 2 delimiter sets.
C19 bound: a call corpus run alone and from 4 threads under a 1e-6 switch interval (quick: 3 rounds, thorough: 20),
plus a deep digest of the process-wide objects before / after the corpus (the sufficient frame condition)."""
import hashlib
import sys
import threading

from bounded.lib import *   # noqa

MSGS = [
    'MSH|^~\\&|SND|FAC|RCV|FAC|20200131120000||ADT^A01^ADT_A01|ID1|P|2.5\rEVN||20200131\rPID|1||123^^^H^MR||DOE^JOHN||19800101|M\rPV1|1|I\r',
    'MSH|^~\\&|LAB|F|R|F|20200131||ORU^R01^ORU_R01|ID2|P|2.4\rPID|1||9\rOBR|1||X|CODE\rOBX|1|NM|GLU||182|mg/dl\rOBX|2|ST|N||text\r',
    'MSH|^~\\&#|A|B|C|D|20200131||ADT^A01^ADT_A01|ID3|P|2.7\rEVN||20200131\rPID|1||5\rPV1|1|O\r',
]


def allowed_exc(e, level):
    from hl7apy.exceptions import HL7apyException
    if isinstance(e, HL7apyException):
        return True
    if level == 1 and isinstance(e, ValueError) and not isinstance(e, UnicodeError):
        return True
    return False


def mutations(msg, tier):
    out = set()
    step = 1 if tier == 'thorough' else 3
    for i in range(0, len(msg), step):
        out.add(msg[:i])
    head = msg.split('\r')[0]
    rest = msg[len(head):]
    for i, c in enumerate(head):
        if c in '|^~\\&#':
            out.add(head[:i] + head[i + 1:] + rest)
            out.add(head[:i] + c + c + head[i + 1:] + rest)
    f = head.split('|')
    for k in (8, 9, 11):
        g = list(f)
        if k < len(g):
            g[k] = ''
            out.add('|'.join(g) + rest)
            out.add('|'.join(f[:k]) + rest)
    for v in ('2.9', '3', '', 'x', '2.5.2', '2.'):
        g = list(f)
        if len(g) > 11:
            g[11] = v
            out.add('|'.join(g) + rest)
    for t in ('ADT', 'ADT^', '^^', 'ZZZ^Z01', 'ADT^A01^ZZZ_Z01', 'ADT^A01^ADT_A99', 'A', 'ADT^A01^', '^A01'):
        g = list(f)
        if len(g) > 8:
            g[8] = t
            out.add('|'.join(g) + rest)
    out |= {msg.replace('PID|', 'PIX|'), msg.replace('PID|', 'ZPD|'), msg.replace('\rPID', '\r\rPID'), msg.replace('\r', '\n'),
            msg.replace('EVN|', 'evn|'), msg + 'NTE|1||x\r', msg + 'Z\r', msg + '|\r', ' ' + msg, msg.replace('OBX|1|NM', 'OBX|1|XX'),
            msg.replace('OBX|1|NM|GLU||182', 'OBX|1|NM|GLU||18^^2~3'), 'MSH', 'MSH|', 'MSH|^~\\&', 'MSH|^~\\&|', 'MSHX', 'msh|^~\\&|', '', '\r', 'abc',
            'MSH|^~\\&#|A', 'MSH\r|^~\\&|', 'MSH|^~\\|', 'MSH||||', 'MSH|^^^^|A|B|C|D|E||ADT^A01|1|P|2.5', 'MSH|^~\\&|' + 'A|' * 30}
    return sorted(out)


def run_c15(R, tier):
    from hl7apy.parser import parse_message, get_message_type
    for msg in MSGS:
        for m in mutations(msg, tier):
            for level in (2, 1):
                tag = hashlib.sha1(m.encode('utf-8', 'replace')).hexdigest()[:10]
                try:
                    get_message_type(m)
                except Exception as e:
                    if not allowed_exc(e, 2) or isinstance(e, ValueError):
                        R.fail('C15:get_message_type:%s' % tag, 'C15:get_message_type-leaks:%s' % type(e).__name__,
                               'get_message_type(%s) raised %s: %s' % (short(m, 80), type(e).__name__, e),
                               'from hl7apy.parser import get_message_type\nget_message_type(%r)' % m, cap=8)
                try:
                    p = parse_message(m, validation_level=level)
                except Exception as e:
                    if not allowed_exc(e, level):
                        R.fail('C15:parse:%d:%s' % (level, tag), 'C15:parse_message-leaks:%s' % type(e).__name__,
                               'parse_message(%s, validation_level=%d) raised %s: %s' % (short(m, 100), level, type(e).__name__, e),
                               'from hl7apy.parser import parse_message\nparse_message(%r, validation_level=%d)' % (m, level), cap=8)
                    else:
                        R.ok((level, tag))
                    continue
                try:
                    p.to_er7()
                except Exception as e:
                    R.fail('C15:to_er7:%d:%s' % (level, tag), 'C15:to_er7-raises:%s:%s' % (type(e).__name__, structure_kind(m)),
                           'parse_message(%s, level %d) succeeded but to_er7() raised %s: %s' % (short(m, 100), level, type(e).__name__, e), cap=8)
                    continue
                try:
                    p.validate(return_errors=True)
                except Exception as e:
                    R.fail('C15:validate:%d:%s' % (level, tag), 'C15:validate-raises:%s:%s' % (type(e).__name__, structure_kind(m)),
                           'parse_message(%s, level %d).validate(return_errors=True) raised %s: %s' % (short(m, 100), level, type(e).__name__, e), cap=8)
                    continue
                R.ok((level, tag), {'input': m[:80], 'level': level} if len(R.samples) < 3 else None)


def structure_kind(m):
    """coarse identity of the header shape for known-finding matching"""
    f = m.split('\r')[0].split('|')
    t = f[8] if len(f) > 8 else None
    if t is None or t == '':
        return 'no-MSH-9'
    parts = t.split('^')
    s = parts[2] if len(parts) > 2 else ('_'.join(parts[:2]) if len(parts) > 1 else None)
    if s is None:
        return 'one-component-MSH-9'
    import re
    if re.match(r'^z[a-z0-9]{2}_z[a-z0-9]{2}$', s or '', re.I):
        return 'z-message'
    return 'unknown-or-known-structure'


# ---------------------------------------------------------------------------------------------------
def c17_calls():
    from hl7apy.parser import parse_message, parse_segment, parse_field, parse_component
    from hl7apy.core import Message, Segment, Field, Component, SubComponent
    from hl7apy.factories import datatype_factory
    EC = {'FIELD': '|', 'COMPONENT': '^', 'SUBCOMPONENT': '&', 'REPETITION': '~', 'ESCAPE': '\\'}
    calls = []
    for v in ('2.3', '2.5', '2.7'):
        ec = dict(EC, **({'TRUNCATION': '#'} if v >= '2.7' else {}))
        for lvl in (1, 2):
            calls.append(('parse_segment %s %d' % (v, lvl), lambda v=v, lvl=lvl, ec=ec: parse_segment('PID|1||12^^^H&1.2&ISO||DOE^J~ROE^K||19800101|M', version=v, validation_level=lvl, encoding_chars=dict(ec)).to_er7(dict(ec))))
            calls.append(('parse_field %s %d' % (v, lvl), lambda v=v, lvl=lvl, ec=ec: parse_field('DOE^JOHN^A', name='PID_5', version=v, validation_level=lvl, encoding_chars=dict(ec)).to_er7(dict(ec))))
            calls.append(('parse_component %s %d' % (v, lvl), lambda v=v, lvl=lvl, ec=ec: parse_component('NS&1.2&ISO', name='CX_4', datatype='HD', version=v, validation_level=lvl, encoding_chars=dict(ec)).to_er7(dict(ec))))
            calls.append(('build %s %d' % (v, lvl), lambda v=v, lvl=lvl, ec=ec: build_seg(v, lvl, ec)))
            calls.append(('datatype NM %s %d' % (v, lvl), lambda v=v, lvl=lvl: datatype_factory('NM', '12.5', version=v, validation_level=lvl).to_er7()))
            calls.append(('long ST leaf %s %d' % (v, lvl), lambda v=v, lvl=lvl, ec=ec: outcome(lambda: parse_field('abc' + 'x' * 300, name='NTE_3', version=v, validation_level=lvl, encoding_chars=dict(ec)).to_er7(dict(ec)))))
            calls.append(('invalid SI falls back to ST %s %d' % (v, lvl), lambda v=v, lvl=lvl, ec=ec: outcome(lambda: parse_field('abc' + 'x' * 300, name='PID_1', version=v, validation_level=lvl, encoding_chars=dict(ec)).to_er7(dict(ec)))))
            calls.append(('component with subcomponents %s %d' % (v, lvl), lambda v=v, lvl=lvl, ec=ec: comp(v, lvl, ec)))
        calls.append(('parse_message %s' % v, lambda v=v: parse_message(MSGS[0].replace('|2.5', '|' + v), validation_level=2).to_er7()))
        calls.append(('parse_message strict %s' % v, lambda v=v: outcome(lambda: parse_message(MSGS[0].replace('|2.5', '|' + v), validation_level=1).to_er7())))
        calls.append(('validate %s' % v, lambda v=v: str(parse_message(MSGS[0].replace('|2.5', '|' + v), validation_level=2).validate(return_errors=True))))
    calls.append(('repeated groups 2.4 strict', lambda: outcome(lambda: parse_message(MSGS[1], validation_level=1).to_er7())))
    calls.append(('repeated groups 2.4 tolerant', lambda: outcome(lambda: parse_message(MSGS[1].replace('OBX|2', 'OBR|2||Y|C\rOBX|2'), validation_level=2).to_er7())))
    calls.append(('TN leaf 2.4', lambda: parse_segment('PID|1||||||||||||555-1234', version='2.4', validation_level=2, encoding_chars=dict(EC)).to_er7(dict(EC))))
    calls.append(('DTM leaf 2.6', lambda: parse_segment('EVN||202001311201', version='2.5', validation_level=2, encoding_chars=dict(EC)).to_er7(dict(EC))))
    return calls


def outcome(f):
    try:
        return ('ok', f())
    except Exception as e:
        return ('exc', type(e).__name__)


def build_seg(v, lvl, ec):
    # (no string with separators is assigned: a detached element has no delimiters of its own to parse it with)
    from hl7apy.core import Segment
    s = Segment('PID', version=v, validation_level=lvl)
    s.pid_3.cx_1 = '12'
    s.pid_3.cx_4.hd_1 = 'H'
    s.pid_5.xpn_1 = 'DOE'
    f = s.add_field('PID_8')
    f.value = 'M'
    return s.to_er7(dict(ec))


def comp(v, lvl, ec):
    from hl7apy.core import Component
    c = Component('CX_4', version=v, validation_level=lvl)
    sc = c.add_subcomponent('HD_1')
    sc.value = 'NS'
    return c.to_er7(dict(ec))


def run_c17(R, tier):
    import hl7apy
    calls = c17_calls()
    base = {}
    d0 = (hl7apy.get_default_version(), hl7apy.get_default_validation_level())
    for name, f in calls:
        base[name] = outcome(f)
    alt_ec = {'FIELD': '!', 'COMPONENT': '$', 'SUBCOMPONENT': '@', 'REPETITION': '*', 'ESCAPE': '?'}
    versions = VERSIONS if tier == 'thorough' else ['2.1', '2.4', '2.5', '2.8']
    saved_ec = hl7apy._DEFAULT_ENCODING_CHARS
    try:
        for dv in versions:
            for dl in (1, 2):
                for use_alt in (False, True):
                    hl7apy.set_default_version(dv)
                    hl7apy.set_default_validation_level(dl)
                    hl7apy._DEFAULT_ENCODING_CHARS = dict(alt_ec, GROUP='\r', SEGMENT='\r') if use_alt else saved_ec
                    for name, f in calls:
                        got = outcome(f)
                        if got != base[name]:
                            R.fail('C17:%s:%s:%d:%s' % (name, dv, dl, use_alt), 'C17:depends-on-default:%s' % name.rsplit(' ', 2)[0],
                                   'call "%s" gives %s under the stock defaults but %s with default version %s, level %d, delimiters %s'
                                   % (name, short(base[name], 120), short(got, 120), dv, dl, 'custom' if use_alt else 'stock'), cap=12)
                        else:
                            R.ok((name, dv, dl, use_alt))
        # changing the defaults never alters elements that already exist
        from hl7apy.core import Segment, Message
        hl7apy.set_default_version(d0[0])
        hl7apy.set_default_validation_level(d0[1])
        hl7apy._DEFAULT_ENCODING_CHARS = saved_ec
        m = Message('ADT_A01', version='2.7')
        m.pid.pid_5 = 'A^B'
        s27 = Segment('NTE', version='2.7')
        s27.nte_3 = lib('2.7').get_base_datatypes()['FT']('x#y|z')
        before = (m.to_er7(), s27.to_er7())
        hl7apy.set_default_version('2.3')
        hl7apy.set_default_validation_level(1)
        after = (m.to_er7(), s27.to_er7())
        if before != after:
            R.fail('C17:existing-elements', 'C17:existing-elements-change-with-defaults', 'encodings %r became %r' % (before, after))
        else:
            R.ok(('existing',))
    finally:
        hl7apy.set_default_version(d0[0])
        hl7apy.set_default_validation_level(d0[1])
        hl7apy._DEFAULT_ENCODING_CHARS = saved_ec


# ---------------------------------------------------------------------------------------------------
def digest_globals():
    """deep digest of the process-wide objects the library owns"""
    import hl7apy, hl7apy.consts, hl7apy.core as core, hl7apy.base_datatypes as bdt
    parts = []

    def add(name, obj):
        parts.append((name, repr_deep(obj)))
    add('defaults', (hl7apy._DEFAULT_VERSION, hl7apy._DEFAULT_VALIDATION_LEVEL, hl7apy._DEFAULT_ENCODING_CHARS, hl7apy._DEFAULT_ENCODING_CHARS_27))
    add('consts', (hl7apy.consts.DEFAULT_ENCODING_CHARS, hl7apy.consts.DEFAULT_ENCODING_CHARS_27))
    add('libs', sorted(hl7apy.SUPPORTED_LIBRARIES.items()))
    for cls in (core.Element, core.SupportComplexDataType, core.SubComponent, core.Component, core.Field, core.Segment, core.Group, core.Message,
                core.ElementProxy, core.ElementList, core.ElementFinder, bdt.DT, bdt.TM, bdt.DTM, bdt.TextualDataType, bdt.BaseDataType):
        add(cls.__name__, sorted((k, repr_deep(v)) for k, v in vars(cls).items() if not callable(v) and not isinstance(v, (property, staticmethod, classmethod)) and not k.startswith('__')))
    for modname in ('hl7apy', 'hl7apy.core', 'hl7apy.parser', 'hl7apy.factories', 'hl7apy.utils', 'hl7apy.validation', 'hl7apy.base_datatypes'):
        mod = sys.modules[modname]
        add(modname, sorted((k, repr_deep(v)) for k, v in vars(mod).items()
                            if isinstance(v, (dict, list, set, tuple, str, int, type(None))) and not k.startswith('__')))
    for v in ('2.3', '2.5', '2.7'):
        L = lib(v)
        add('BASE_DATATYPES' + v, sorted((k, c.__name__) for k, c in L.BASE_DATATYPES.items()))
        add('tables' + v, (len(L.MESSAGES), len(L.SEGMENTS), len(L.FIELDS), len(L.DATATYPES), hashlib.sha1(repr(L.SEGMENTS.get('PID')).encode()).hexdigest(),
                           hashlib.sha1(repr(L.MESSAGES.get('ADT_A01')).encode()).hexdigest(), hashlib.sha1(repr(sorted(L.GROUPS)).encode()).hexdigest()))
    return parts


def repr_deep(o):
    if isinstance(o, dict):
        return '{' + ','.join('%r:%s' % (k, repr_deep(v)) for k, v in sorted(o.items(), key=lambda kv: repr(kv[0]))) + '}'
    if isinstance(o, (list, tuple)):
        return '[' + ','.join(repr_deep(x) for x in o) + ']'
    if isinstance(o, (set, frozenset)):
        return 'set' + repr(sorted(repr(x) for x in o))
    if isinstance(o, type):
        return o.__name__
    return repr(o) if isinstance(o, (str, int, float, type(None), bool)) else type(o).__name__


def run_c19(R, tier):
    calls = c17_calls()
    before = digest_globals()
    alone = {name: outcome(f) for name, f in calls}
    alone2 = {name: outcome(f) for name, f in calls}
    for name in alone:
        if alone[name] != alone2[name]:
            R.fail('C19:not-repeatable:%s' % name, 'C19:call-not-repeatable:%s' % name.rsplit(' ', 2)[0],
                   'the same call returns %s and then %s in one process' % (short(alone[name], 100), short(alone2[name], 100)))
    after = digest_globals()
    for (n1, d1), (n2, d2) in zip(before, after):
        if d1 != d2:
            R.fail('C19:global-written:%s' % n1, 'C19:process-wide-state-written:%s' % n1,
                   'process-wide object %s changed during the call corpus (frame condition of C19)' % n1)
        else:
            R.ok(('digest', n1))
    rounds = 20 if tier == 'thorough' else 3
    old = sys.getswitchinterval()
    sys.setswitchinterval(1e-6)
    try:
        for rnd in range(rounds):
            results = {}
            errors = []

            def worker(k):
                order = calls[k::4] + calls[:k:4]
                for name, f in order:
                    results.setdefault(name, []).append(outcome(f))
            ts = [threading.Thread(target=worker, args=(k,)) for k in range(4)]
            for t in ts:
                t.start()
            for t in ts:
                t.join()
            for name, outs in results.items():
                for o in outs:
                    if o != alone[name]:
                        R.fail('C19:concurrent-differs:%s' % name, 'C19:concurrent-result-differs:%s' % name.rsplit(' ', 2)[0],
                               'call "%s": alone %s, from a thread %s' % (name, short(alone[name], 100), short(o, 100)))
                    else:
                        R.ok(('thread', name, rnd))
    finally:
        sys.setswitchinterval(old)


def main():
    a = args()
    R = Result('robust')
    if a.property == 'C15':
        run_c15(R, a.tier)
    elif a.property == 'C17':
        run_c17(R, a.tier)
    elif a.property == 'C19':
        run_c19(R, a.tier)
    R.rule = 'see module docstring; distinct inputs / (call, configuration) pairs'
    R.bound = 'see module docstring (%s tier)' % a.tier
    R.dump(a.out)


if __name__ == '__main__':
    try:
        main()
    except Exception:
        traceback.print_exc()
        sys.exit(3)
