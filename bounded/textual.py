"""C06 - escaping is delimiter-safe and idempotent.

G-style window enumeration with the REAL _escape_value: the routine inspects characters only through equality with
the delimiter values and membership in the regex letter class, so strings are enumerated over the class alphabet
{field, component, subcomponent, repetition, (truncation), escape, each escape letter, one ordinary letter} up to a
length bound, for several delimiter sets (default, custom, all-punctuation) and both TextualDataType variants.
Bound: quick length <= 5, thorough length <= 7.  Labelled bounded (the locality meta-lemma that would turn the window
check into all lengths is an assumption, DESIGN 4/C06)."""
import itertools
import sys

from bounded.lib import *   # noqa

SETS = [
    {'FIELD': '|', 'COMPONENT': '^', 'SUBCOMPONENT': '&', 'REPETITION': '~', 'ESCAPE': '\\'},
    {'FIELD': '!', 'COMPONENT': '$', 'SUBCOMPONENT': '@', 'REPETITION': '*', 'ESCAPE': '?'},
    {'FIELD': '#', 'COMPONENT': '%', 'SUBCOMPONENT': ';', 'REPETITION': ':', 'ESCAPE': '='},
]


def tokenise(out, ec, letters):
    """left to right: ordinary characters and ESC L ESC sequences; returns the index of a dangling escape or None"""
    esc = ec['ESCAPE']
    i = 0
    while i < len(out):
        if out[i] == esc:
            if i + 2 < len(out) and out[i + 1] in letters and out[i + 2] == esc:
                i += 3
                continue
            return i
        i += 1
    return None


def family_of_dangling(out, i, ec, letters):
    esc = ec['ESCAPE']
    before = out[max(0, i - 2):i]
    after = out[i + 1:i + 3]
    if len(before) == 2 and before[0] == esc and before[1] in letters:
        return 'C06:dangling-escape:after-ESC+letter'
    if len(after) == 2 and after[0] in letters and after[1] == esc:
        return 'C06:dangling-escape:before-letter+ESC'
    return 'C06:dangling-escape:other'


def main():
    a = args()
    R = Result('textual')
    maxlen = 7 if a.tier == 'thorough' else 5
    import hl7apy.base_datatypes as b25
    import hl7apy.v2_7.base_datatypes as b27
    variants = [('2.5', b25.ST, False, 'HNFSTRE'), ('2.7', b27.ST, True, 'HNFSTREL'), ('2.7-no-truncation', b27.ST, False, 'HNFSTREL')]
    for vname, cls, trunc, letters in variants:
        for ec0 in SETS[:2] if a.tier != 'thorough' else SETS:
            ec = dict(ec0)
            if trunc:
                ec['TRUNCATION'] = '+' if ec['FIELD'] != '|' else '#'
            delims = [ec[k] for k in ('FIELD', 'COMPONENT', 'SUBCOMPONENT', 'REPETITION')] + ([ec['TRUNCATION']] if trunc else [])
            alphabet = delims[:2] + ([ec['TRUNCATION']] if trunc else [delims[3]]) + [ec['ESCAPE'], 'E', 'F', 'x']
            if a.tier == 'thorough':
                alphabet = delims + [ec['ESCAPE'], 'E', 'F', 'L', 'x']
            for n in range(0, maxlen + 1):
                if a.tier == 'thorough' and n == maxlen and len(alphabet) > 8:
                    continue
                for tup in itertools.product(alphabet, repeat=n):
                    s = ''.join(tup)
                    try:
                        out = cls(s).to_er7(ec)
                        out2 = cls(out).to_er7(ec)
                    except Exception as e:
                        R.fail('C06:exc:%s:%r' % (vname, s), 'C06:exception:%s' % type(e).__name__, '%s ST(%r).to_er7 raises %s' % (vname, s, e))
                        continue
                    bad = [c for c in delims if c in out]
                    if bad:
                        R.fail('C06:raw-delimiter:%s:%r:%s' % (vname, s, ec['FIELD']), 'C06:raw-delimiter:%s' % vname,
                               '%s ST(%r).to_er7(%r) == %r contains unescaped %r' % (vname, s, ec, out, bad),
                               "from hl7apy.%sbase_datatypes import ST\nassert not any(c in ST(%r).to_er7(%r) for c in %r)"
                               % ('v2_7.' if vname != '2.5' else '', s, ec, delims))
                        continue
                    if out2 != out:
                        R.fail('C06:not-idempotent:%s:%r:%s' % (vname, s, ec['FIELD']), 'C06:not-idempotent:%s' % vname,
                               '%s: T(%r) == %r but T(T(s)) == %r' % (vname, s, out, out2))
                        continue
                    d = tokenise(out, ec, letters)
                    if d is not None:
                        R.fail('C06:dangling:%s:%r:%s' % (vname, s, ec['FIELD']), family_of_dangling(out, d, ec, letters),
                               '%s ST(%r).to_er7() == %r: escape character at %d belongs to no escape sequence' % (vname, s, out, d), cap=6)
                        continue
                    R.ok((vname, ec['FIELD'], s), {'variant': vname, 'in': s, 'out': out} if n == 3 and len(R.samples) < 3 else None)
    # leaf delegation: the element's own encoding chars reach the datatype object (detached and attached, per version)
    from hl7apy.core import Message, Segment
    for v in (VERSIONS if a.tier == 'thorough' else QUICK_VERSIONS):
        try:
            seg = Segment('NTE', version=v)
            nte3_dt = lib(v).SEGMENTS['NTE'][1][2][1][2]          # FT from 2.2 on, TX in 2.1
            seg.nte_3 = lib(v).get_base_datatypes()[nte3_dt]('a|b^c&d~e#f')
            text = seg.to_er7()
            body = text.split('|', 3)[3] if text.count('|') >= 3 else ''
            raw = [c for c in '|^&~' + ('#' if v >= '2.7' else '') if c in body]
            if raw:
                R.fail('C06:detached:%s' % v, 'C06:detached-element-raw-delimiter:%s' % v,
                       'v%s detached NTE-3 encodes as %r: unescaped %r' % (v, body, raw))
            else:
                R.ok(('detached', v))
            custom = dict(SETS[1])
            if v >= '2.7':
                custom['TRUNCATION'] = '+'
            m = Message('ADT_A01', version=v, encoding_chars=custom)
            STc = lib(v).get_base_datatypes()['ST']
            m.msh.msh_10 = STc('A!B$C@D*E?F+G')
            t1 = m.to_er7()
            f10a = t1.split('\r')[0].split('!')[9]
            if any(c in f10a for c in '$@*' + ('+' if v >= '2.7' else '')):
                R.fail('C06:custom:%s' % v, 'C06:custom-delimiters-raw:%s' % v, 'v%s MSH-10 under custom delimiters encodes as %r' % (v, f10a))
            m.encoding_chars = dict(SETS[0], **({'TRUNCATION': '#'} if v >= '2.7' else {}))
            m.msh.msh_14 = STc('A!B$C@D*E?F+G|^&~\\#')      # (re-assigning MSH-10 itself would hit the recorded C09 finding)
            t2 = m.to_er7()
            f10 = t2.split('\r')[0].split('|')[13]
            if any(c in f10 for c in '^&~' + ('#' if v >= '2.7' else '')):
                R.fail('C06:re-encode:%s' % v, 'C06:re-encoded-under-new-delimiters:%s' % v, 'v%s MSH-10 re-encoded as %r' % (v, f10))
            else:
                R.ok(('reencode', v))
            # one datatype object encoded under two delimiter sets
            from hl7apy.factories import datatype_factory
            o = datatype_factory('ST', 'cost 5$ a day \\ x', version=v)
            first = o.to_er7(dict(SETS[0]))
            second = o.to_er7(dict(SETS[1]))
            fresh = datatype_factory('ST', 'cost 5$ a day \\ x', version=v).to_er7(dict(SETS[1]))
            if second != fresh:
                R.fail('C06:stateful:%s' % v, 'C06:encoding-depends-on-earlier-encoding:%s' % v,
                       'v%s one ST object encoded with two delimiter sets gives %r, a fresh object %r' % (v, second, fresh))
            else:
                R.ok(('two-sets', v))
        except Exception as e:
            R.fail('C06:leaf-exc:%s' % v, 'C06:leaf-exception:%s:%s' % (v, type(e).__name__), 'v%s leaf delegation check raised %s: %s' % (v, type(e).__name__, e))
    R.rule = 'all strings over the class alphabet up to the length bound x delimiter sets x TextualDataType variants; distinct inputs'
    R.bound = 'length <= %d' % maxlen
    R.dump(a.out)


if __name__ == '__main__':
    try:
        main()
    except Exception:
        traceback.print_exc()
        sys.exit(3)
