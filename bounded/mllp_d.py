"""BOUNDED stand-in for C16: the real MLLPServer on an ephemeral loopback port.
Bound: 3 payload kinds (registered type, unregistered type, non-HL7) x every split of the frame into 2 chunks at the
first 6 and last 4 byte boundaries + 6 seeded 3-chunk splits (thorough: every 2-split, 40 3-splits) x ERR handler
present / absent; malformed frames (no start block, truncated, undecodable, early close); 1..N concurrent clients with
distinct messages (N = 4 quick, 16 thorough).  to_mllp framing checked on a message corpus."""
import socket
import sys
import threading
import time

from bounded.lib import *   # noqa

SB, EB, CR = b'\x0b', b'\x1c', b'\x0d'


def make_server(with_err, calls):
    from hl7apy.mllp import MLLPServer, AbstractHandler, AbstractErrorHandler, UnsupportedMessageType, InvalidHL7Message

    class H(AbstractHandler):
        def __init__(self, message, tag):
            super(H, self).__init__(message)
            self.tag = tag

        def reply(self):
            time.sleep(0.002)
            calls.append(('H', self.tag, self.incoming_message))
            cid = self.incoming_message.split('\r')[0].split('|')[9]
            return '\x0bMSA|AA|%s\x1c\x0d' % cid

    class E(AbstractErrorHandler):
        def reply(self):
            calls.append(('E', type(self.exc).__name__, self.incoming_message))
            return '\x0bMSA|AE|%s\x1c\x0d' % type(self.exc).__name__

    handlers = {'ADT^A01^ADT_A01': (H, 'adt'), 'ORU^R01^ORU_R01': (H, 'oru')}
    if with_err:
        handlers['ERR'] = (E,)
    srv = MLLPServer('127.0.0.1', 0, handlers, timeout=2)
    t = threading.Thread(target=srv.serve_forever, kwargs={'poll_interval': 0.01})
    t.daemon = True
    t.start()
    return srv, t


def exchange(port, chunks, delay=0.003, close_early=False):
    s = socket.create_connection(('127.0.0.1', port), timeout=3)
    try:
        s.setsockopt(socket.IPPROTO_TCP, socket.TCP_NODELAY, 1)
        for c in chunks:
            if c:
                try:
                    s.sendall(c)
                except OSError:
                    break       # connection closed by the server (malformed frames)
                time.sleep(delay)
        if close_early:
            try:
                s.shutdown(socket.SHUT_WR)
            except OSError:
                pass            # the server has already closed the connection
        data = b''
        try:
            while True:
                d = s.recv(4096)
                if not d:
                    break
                data += d
        except socket.timeout:
            return data, 'timeout'
        except OSError:
            return data, 'closed'
        return data, 'closed'
    finally:
        s.close()


def msg(kind, cid):
    if kind == 'adt':
        return 'MSH|^~\\&|S|F|R|F|20200131||ADT^A01^ADT_A01|%s|P|2.5\rEVN||20200131\rPID|1||5\r' % cid
    if kind == 'unreg':
        return 'MSH|^~\\&|S|F|R|F|20200131||ACK^A01^ACK|%s|P|2.5\rMSA|AA|1\r' % cid
    return 'this is not hl7 %s\r' % cid


def main():
    a = args()
    R = Result('mllp')
    r = rng()
    # ---- to_mllp framing
    from hl7apy.parser import parse_message
    for kind in ('adt', 'unreg'):
        m = parse_message(msg(kind, 'F1'))
        for tr in (False, True):
            want = '\x0b' + m.to_er7(trailing_children=tr) + '\r\x1c\r'
            if m.to_mllp(trailing_children=tr) != want:
                R.fail('C16:to_mllp:%s:%s' % (kind, tr), 'C16:to_mllp-framing', 'to_mllp() == %r' % m.to_mllp(trailing_children=tr)[:80])
            else:
                R.ok(('to_mllp', kind, tr))
    for with_err in (True, False):
        calls = []
        srv, th = make_server(with_err, calls)
        port = srv.server_address[1]
        try:
            for kind in ('adt', 'unreg', 'junk'):
                frame = SB + msg(kind, 'C1').encode() + EB + CR
                n = len(frame)
                cuts2 = list(range(1, 7)) + list(range(n - 4, n)) if a.tier != 'thorough' else list(range(1, n))
                splits = [[frame]] + [[frame[:i], frame[i:]] for i in cuts2]
                for _ in range(6 if a.tier != 'thorough' else 40):
                    i, j = sorted(r.sample(range(1, n), 2))
                    splits.append([frame[:i], frame[i:j], frame[j:]])
                splits.append([frame[:1], frame[1:2], frame[2:3], frame[3:]])
                for chunks in splits:
                    del calls[:]
                    data, end = exchange(port, chunks)
                    time.sleep(0.005)
                    tag = '%s:%s:%s' % (kind, with_err, ','.join(str(len(c)) for c in chunks))
                    if kind == 'adt':
                        ok = len(calls) == 1 and calls[0][:2] == ('H', 'adt') and data == b'\x0bMSA|AA|C1\x1c\x0d' and end == 'closed' \
                            and calls[0][2] == msg('adt', 'C1')
                    elif with_err:
                        exp = 'UnsupportedMessageType' if kind == 'unreg' else 'InvalidHL7Message'
                        ok = len(calls) == 1 and calls[0][:2] == ('E', exp) and data == ('\x0bMSA|AE|%s\x1c\x0d' % exp).encode() and end == 'closed'
                    else:
                        ok = len(calls) == 0 and data == b'' and end == 'closed'
                    if not ok:
                        R.fail('C16:exchange:' + tag, 'C16:framing-or-routing:%s:err=%s:first-chunk=%d' % (kind, with_err, min(len(chunks[0]), 3)),
                               'frame split %s -> handler calls %r, reply %r, connection %s' % ([len(c) for c in chunks], [c[:2] for c in calls], data[:60], end))
                    else:
                        R.ok(tag, {'kind': kind, 'chunks': [len(c) for c in chunks]} if len(R.samples) < 3 else None)
            # ---- malformed frames: no handler, connection closed
            bad = {'no-start-block': msg('adt', 'B1').encode() + EB + CR, 'wrong-start': b'X' + msg('adt', 'B2').encode() + EB + CR,
                   'truncated': SB + msg('adt', 'B3').encode(), 'truncated-after-eb': SB + msg('adt', 'B4').encode() + EB,
                   'undecodable': SB + b'MSH|^~\\&|\xff\xfe|' + EB + CR, 'empty-frame': SB + EB + CR}
            for name, frame in bad.items():
                del calls[:]
                data, end = exchange(port, [frame], close_early=True)
                time.sleep(0.005)
                if calls or end != 'closed' or (data and name != 'empty-frame'):
                    R.fail('C16:malformed:%s:%s' % (name, with_err), 'C16:malformed-frame-handled:%s' % name,
                           '%s: handler calls %r, reply %r, connection %s' % (name, [c[:2] for c in calls], data[:40], end))
                else:
                    R.ok(('malformed', name, with_err))
            # ---- concurrent clients with distinct messages
            N = 16 if a.tier == 'thorough' else 4
            for rnd in range(3):
                del calls[:]
                out = {}

                def client(k):
                    f = SB + msg('adt', 'K%d' % k).encode() + EB + CR
                    cut = 1 + (k * 7) % (len(f) - 1)
                    out[k] = exchange(port, [f[:cut], f[cut:]], delay=0.001 * (k % 3))
                ts = [threading.Thread(target=client, args=(k,)) for k in range(N)]
                for t in ts:
                    t.start()
                for t in ts:
                    t.join()
                time.sleep(0.01)
                for k in range(N):
                    want = ('\x0bMSA|AA|K%d\x1c\x0d' % k).encode()
                    if out.get(k, (None,))[0] != want:
                        R.fail('C16:concurrent:%d:%d' % (rnd, k), 'C16:concurrent-client-wrong-reply', 'client %d received %r, expected %r' % (k, out.get(k), want))
                    else:
                        R.ok(('concurrent', rnd, k, with_err))
                if len(calls) != N:
                    R.fail('C16:concurrent-count:%d' % rnd, 'C16:concurrent-handler-count', '%d handler invocations for %d clients' % (len(calls), N))
        finally:
            srv.shutdown()
            srv.server_close()
    R.rule = 'frame splittings x payload kinds x ERR handler; malformed frames; concurrent clients; distinct scenarios'
    R.bound = 'see module docstring (%s tier)' % a.tier
    R.dump(a.out)


if __name__ == '__main__':
    try:
        main()
    except Exception:
        traceback.print_exc()
        sys.exit(3)
