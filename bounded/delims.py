"""BOUNDED stand-in for C07: a message's encoding characters govern its entire encoding.
Bound: quick = 40 seeded choices of 5 (v>=2.7: 5 or 6) distinct punctuation characters x 4 versions; thorough = 400 x 12;
messages with repetitions, components and subcomponents; invalid sets (each key missing, each pair duplicated)."""
import itertools
import sys

from bounded.lib import *   # noqa

PUNCT = list('|^~\\&#!$%*+,-/:;<=>?@[]_`{}')       # no '.': it occurs in the version text of MSH-12
KEYS = ['FIELD', 'COMPONENT', 'REPETITION', 'ESCAPE', 'SUBCOMPONENT']


def descend(el):
    yield el
    for c in el.children:
        for x in descend(c):
            yield x


def main():
    a = args()
    R = Result('delims')
    from hl7apy.core import Message
    from hl7apy.parser import parse_message
    from hl7apy.exceptions import InvalidEncodingChars
    r = rng()
    versions = VERSIONS if a.tier == 'thorough' else ['2.3', '2.5', '2.7', '2.8.2']
    n = 400 if a.tier == 'thorough' else 40
    for v in versions:
        for i in range(n):
            k = 6 if (v >= '2.7' and i % 2 == 0) else 5
            chars = r.sample(PUNCT, k)
            ec = dict(zip(KEYS, chars[:5]))
            if k == 6:
                ec['TRUNCATION'] = chars[5]
            tag = ''.join(chars)
            try:
                m = Message('ADT_A01', version=v, encoding_chars=dict(ec))
                F, C, Rp, E, S = [ec[x] for x in KEYS]
                m.pid.pid_3 = 'A%sB%sX%sY' % (C, C, S)     # components, subcomponents
                m.pid.add_field('PID_3').value = 'C%sD' % C      # a second repetition
                m.pid.pid_5 = 'DOE%sJOHN' % C
                text = m.to_er7()
                head = text.split('\r')[0]
                seps = C + Rp + E + S + (ec['TRUNCATION'] if k == 6 else '')
                if not head.startswith('MSH' + F + seps + F):
                    R.fail('C07:msh12:%s:%s' % (v, tag), 'C07:MSH-1-2-do-not-spell-the-set', 'v%s set %r: header %r' % (v, ec, head[:20]))
                    continue
                got = m.encoding_chars
                if any(got.get(x) != ec[x] for x in ec) or ('TRUNCATION' in got) != (k == 6):
                    R.fail('C07:readback:%s:%s' % (v, tag), 'C07:encoding_chars-readback', 'v%s set %r reads back %r' % (v, ec, got))
                    continue
                bad = [d.name for d in descend(m) if d is not m and any(d.encoding_chars.get(x) != ec[x] for x in ec)]
                if bad:
                    R.fail('C07:descendant:%s:%s' % (v, tag), 'C07:descendant-encoding_chars', 'v%s set %r: descendants %s see another set' % (v, ec, bad[:3]))
                    continue
                pid = [l for l in text.split('\r') if l.startswith('PID')][0]
                want = 'PID%s%s%sA%sB%sX%sY%sC%sD%s%sDOE%sJOHN' % (F, F, F, C, C, S, Rp, C, F, F, C)
                if pid != want:
                    R.fail('C07:separators:%s:%s' % (v, tag), 'C07:separators-not-from-the-set', 'v%s set %r: PID encodes %r, expected %r' % (v, ec, pid, want))
                    continue
                p = parse_message(text)
                if p.to_er7() != text or any(p.encoding_chars.get(x) != ec[x] for x in ec) or ('TRUNCATION' in p.encoding_chars) != (k == 6):
                    R.fail('C07:reparse:%s:%s' % (v, tag), 'C07:reparse-differs', 'v%s set %r: parse_message(to_er7()) gives %r with %r'
                           % (v, ec, p.to_er7()[:80], p.encoding_chars))
                    continue
                subs = p.pid.pid_3[0].cx_3.to_er7() if False else None
                reps = len(p.pid.pid_3)
                comps = [c.to_er7() for c in p.pid.pid_3[0].children]
                if reps != 2 or comps != ['A', 'B', 'X%sY' % S]:
                    R.fail('C07:reparse-structure:%s:%s' % (v, tag), 'C07:reparse-structure', 'v%s set %r: %d repetitions, components %r' % (v, ec, reps, comps))
                    continue
                mllp = m.to_mllp()
                if mllp != '\x0b' + text + '\r\x1c\r':
                    R.fail('C07:to_mllp:%s:%s' % (v, tag), 'C07:to_mllp', 'v%s' % v)
                    continue
                R.ok((v, tag), {'version': v, 'set': ec, 'pid': pid} if len(R.samples) < 3 else None)
            except Exception as e:
                R.fail('C07:exc:%s:%s' % (v, tag), 'C07:valid-set-raises:%s' % type(e).__name__, 'v%s set %r: %s: %s' % (v, ec, type(e).__name__, e))
        # invalid sets
        base = {'FIELD': '|', 'COMPONENT': '^', 'REPETITION': '~', 'ESCAPE': '\\', 'SUBCOMPONENT': '&'}
        invalid = []
        for kk in KEYS:
            d = dict(base)
            del d[kk]
            invalid.append(('missing-' + kk, d))
        for a1, a2 in itertools.combinations(KEYS, 2):
            d = dict(base)
            d[a2] = d[a1]
            invalid.append(('dup-%s-%s' % (a1, a2), d))
            d2 = dict(d, GROUP='\r', SEGMENT='\r')
            invalid.append(('dup-%s-%s+extra' % (a1, a2), d2))
        if v >= '2.7':
            for kk in KEYS:
                invalid.append(('trunc-dup-' + kk, dict(base, TRUNCATION=base[kk])))
        for name, d in invalid:
            try:
                Message('ADT_A01', version=v, encoding_chars=d)
                R.fail('C07:invalid-accepted:%s:%s' % (v, name), 'C07:invalid-set-accepted:%s' % name.split('-')[0], 'v%s %s: %r accepted' % (v, name, d))
            except InvalidEncodingChars:
                R.ok((v, 'invalid', name))
            except Exception as e:
                R.fail('C07:invalid-other:%s:%s' % (v, name), 'C07:invalid-set-other-exception:%s' % type(e).__name__, 'v%s %s: %s' % (v, name, e))
        # duplicates in parsed text
        for hdr in ('MSH|^^\\&|', 'MSH|^~\\^|', 'MSH|^~|&|', 'MSH|^~\\|', 'MSH|^~\\&#!|'):
            t = hdr + 'A|B|C|D|20200101||ADT^A01^ADT_A01|1|P|%s\rPID|1' % v
            try:
                parse_message(t)
                R.fail('C07:parsed-invalid:%s:%s' % (v, hdr), 'C07:invalid-MSH-2-accepted', 'v%s header %r accepted' % (v, hdr))
            except InvalidEncodingChars:
                R.ok((v, 'hdr', hdr))
            except Exception as e:
                R.fail('C07:parsed-invalid-exc:%s:%s' % (v, hdr), 'C07:invalid-MSH-2-other-exception:%s' % type(e).__name__, 'v%s header %r: %s' % (v, hdr, e))
    R.rule = 'seeded delimiter sets; distinct (version, set)'
    R.bound = '%d sets x %d versions' % (n, len(versions))
    R.dump(a.out)


if __name__ == '__main__':
    try:
        main()
    except Exception:
        traceback.print_exc()
        sys.exit(3)
