"""Shared helpers of the bounded stand-ins (run under /venv/bin/python against the working tree).
Everything here is labelled BOUNDED in the evidence and never counted as proved."""
import argparse
import importlib
import itertools
import json
import os
import random
import sys
import time
import traceback

VERSIONS = ['2.1', '2.2', '2.3', '2.3.1', '2.4', '2.5', '2.5.1', '2.6', '2.7', '2.8', '2.8.1', '2.8.2']
QUICK_VERSIONS = ['2.3', '2.5', '2.7', '2.8.2']


def lib(version):
    return importlib.import_module('hl7apy.v%s' % version.replace('.', '_'))


class Result(object):
    def __init__(self, name):
        self.name = name
        self.evaluations = 0
        self.nontrivial = set()
        self.failures = []
        self.samples = []
        self.t0 = time.time()
        self.rule = ''
        self.bound = ''
        self.fail_ids = set()

    def ok(self, key=None, sample=None):
        self.evaluations += 1
        if key is not None:
            self.nontrivial.add(key)
        if sample is not None and len(self.samples) < 4:
            self.samples.append(sample)

    def fail(self, ident, family, text, replay_code=None, cap=40):
        self.evaluations += 1
        if ident in self.fail_ids:
            return
        self.fail_ids.add(ident)
        if len(self.failures) < cap or family not in set(f['family'] for f in self.failures):
            self.failures.append({'id': ident, 'family': family, 'text': text[:600], 'replay_code': replay_code})

    def dump(self, path, status='ok'):
        d = {'status': status, 'evaluations': self.evaluations, 'distinct_nontrivial': len(self.nontrivial),
             'failures': self.failures, 'samples': self.samples, 'rule': self.rule, 'bound': self.bound,
             'wall_s': round(time.time() - self.t0, 2), 'label': 'bounded'}
        with open(path, 'w') as f:
            json.dump(d, f, indent=1, default=str)


def args():
    ap = argparse.ArgumentParser()
    ap.add_argument('--property', required=True)
    ap.add_argument('--out', required=True)
    ap.add_argument('--tier', default='quick')
    return ap.parse_args()


def rng():
    return random.Random(int(os.environ.get('VERIF_SEED', '0') or 0))


# ---------------------------------------------------------------------------------------------------
# canonical leaf text per base datatype (C01's "canonical": plain decimal numerics, valid dates ...)
LEAF = {'ST': 'Txt', 'TX': 'Text', 'FT': 'Formatted', 'ID': 'ID1', 'IS': 'IS1', 'NM': '12', 'SI': '1', 'DT': '20200131',
        'TM': '1201', 'DTM': '202001311201', 'GTS': 'G1', 'SNM': '123', 'TN': '5551234', 'WD': 'W', 'CM': 'CM1',
        'varies': 'V'}


def is_base(version, dt):
    return lib(version).is_base_datatype(dt)


def leaf(version, dt, tag=''):
    v = LEAF.get(dt, 'X')
    if dt in ('ST', 'TX', 'FT', 'ID', 'IS', 'GTS', 'WD', 'CM', 'varies') and tag:
        return (v + tag)[:15]
    return v


def view(el):
    """observable view of an element tree: what to_er7 / children / iteration can see"""
    from hl7apy.core import Element
    out = [el.classname, el.name]
    kids = []
    for c in el.children:
        kids.append(view(c))
    out.append(kids)
    if el.classname == 'SubComponent':
        v = el.value
        out.append(None if v is None else (type(v).__name__, getattr(v, 'value', v) if not isinstance(v, str) else v))
    return out


def er7(el):
    try:
        return el.to_er7()
    except Exception as e:       # encoding itself may fail: part of the view
        return 'EXC:%s' % type(e).__name__


def short(s, n=160):
    s = repr(s)
    return s if len(s) <= n else s[:n] + '...'
