"""BOUNDED stand-in for C14 (name / long name / positional path / letter case address the same child) and for C08
(group finding), executed on the real code.
C14 bound: every version x every well-formed segment x (quick: 4 field positions, thorough: all) x the three addressing
modes x three letter cases; components by positional path for the first complex field of every segment; foreign names.
C08 bound: message structures as in validation_d (quick: core + 12 seeded per version of 3 versions; thorough: all):
the conforming instance is encoded and re-parsed with group finding."""
import sys

from bounded.lib import *   # noqa


def cases(n):
    return [n.lower(), n.upper(), n[:1].upper() + n[1:].lower()]


def run_c14(R, tier):
    from hl7apy.core import Segment, Field
    from hl7apy.exceptions import ChildNotFound, ChildNotValid
    for v in VERSIONS:
        L = lib(v)
        attr_names = set(dir(Segment('PID', version=v))) | set(Segment.cls_attrs)
        for seg, ref in sorted(L.SEGMENTS.items()):
            if seg in ('ANYHL7SEGMENT', 'MSH'):
                continue
            try:
                kids = ref[1]
                names = [c[0] for c in kids]
            except Exception:
                continue
            if not names or any(n != '%s_%d' % (seg, i + 1) for i, n in enumerate(names)):
                continue
            longs = [c[1][3] if len(c[1]) > 3 else None for c in kids]
            n = len(names)
            idxs = range(n) if tier == 'thorough' else sorted(set([0, n // 3, (2 * n) // 3, n - 1]))
            for i in idxs:
                name, ln = names[i], longs[i]
                first = kids[i][1]
                seen = 0
                while first[0] != 'leaf' and first[1] and seen < 4:
                    first = first[1][0][1]
                    seen += 1
                value = leaf(v, first[2] if len(first) > 2 else 'ST')
                spellings = cases(name)
                if ln and longs.count(ln) == 1 and ln.lower() not in attr_names and ln not in attr_names and ln.upper() not in names:
                    spellings += cases(ln)
                for w in spellings:
                    try:
                        s = Segment(seg, version=v)
                        setattr(s, w, value)
                        got = [(c.name, c.to_er7()) for c in s.children]
                        if got != [(name, value)]:
                            R.fail('C14:write:%s:%s:%s' % (v, name, w), 'C14:write-by-%s:%s:%s' % ('name' if w.upper() == name else 'long-name', v, seg),
                                   'v%s Segment(%s).%s = %r created %r, expected [(%r, %r)]' % (v, seg, w, value, got, name, value))
                            continue
                        for r in spellings:
                            back = getattr(s, r)
                            if len(back) != 1 or back[0] is not s.children[0]:
                                R.fail('C14:read:%s:%s:%s:%s' % (v, name, w, r), 'C14:read-by-other-spelling:%s:%s' % (v, seg),
                                       'v%s after %s.%s = %r, reading .%s gives %r' % (v, seg, w, value, r, list(back)))
                                break
                        else:
                            delattr(s, spellings[-1])
                            if len(s.children) != 0:
                                R.fail('C14:delete:%s:%s:%s' % (v, name, w), 'C14:delete-by-other-spelling:%s:%s' % (v, seg), 'child not deleted')
                            else:
                                R.ok((v, name, w))
                    except Exception as e:
                        R.fail('C14:exc:%s:%s:%s' % (v, name, w), 'C14:addressing-raises:%s:%s:%s' % (type(e).__name__, v, seg),
                               'v%s Segment(%s).%s = %r raised %s: %s' % (v, seg, w, value, type(e).__name__, e))
            # positional paths on the first complex field
            for i in range(min(n, 6)):
                cref = kids[i][1]
                if cref[0] == 'leaf' or not cref[1]:
                    continue
                fname = names[i]
                dt = cref[2]
                try:
                    for j, comp in enumerate(cref[1][:4]):
                        cname = comp[0]
                        f = Field(fname, version=v)
                        path = '%s_%d' % (fname.lower(), j + 1)
                        cv = leaf(v, (comp[1][1][0][1][2] if comp[1][0] != 'leaf' and comp[1][1] else comp[1][2]))
                        setattr(f, path, cv)
                        if [c.name for c in f.children] != [cname]:
                            R.fail('C14:positional:%s:%s' % (v, path), 'C14:positional-path-wrong-child:%s:%s' % (v, seg),
                                   'v%s Field(%s).%s created %r, expected %s' % (v, fname, path, [c.name for c in f.children], cname))
                            break
                        if getattr(f, cname.lower())[0] is not f.children[0] or getattr(f, path.upper())[0] is not f.children[0]:
                            R.fail('C14:positional-read:%s:%s' % (v, path), 'C14:positional-read:%s:%s' % (v, seg), 'v%s %s' % (v, path))
                            break
                        R.ok((v, path))
                    # a positional path of ANOTHER field must not resolve here
                    other = '%s_%d_1' % (seg.lower(), (i + 1) * 10 + 1) if False else '%s_%d_1' % (seg.lower(), i + 2)
                    f = Field(fname, version=v)
                    try:
                        x = getattr(f, other)
                        R.fail('C14:foreign-path:%s:%s:%s' % (v, fname, other), 'C14:foreign-positional-path-accepted',
                               'v%s Field(%s).%s returned %r instead of raising' % (v, fname, other, x))
                    except (ChildNotFound, ChildNotValid):
                        R.ok((v, fname, 'foreign', other))
                    # prefix-sharing field numbers: <seg>_1_1 addressed on field <seg>_1x
                    if n >= 10 + i:
                        f = Field(names[9 + i] if 9 + i < n else names[-1], version=v)
                        pfx = '%s_1_1' % seg.lower()
                        if f.name != '%s_1' % seg:
                            try:
                                x = getattr(f, pfx)
                                R.fail('C14:prefix-path:%s:%s' % (v, f.name), 'C14:foreign-positional-path-accepted',
                                       'v%s Field(%s).%s returned %r instead of raising' % (v, f.name, pfx, x))
                            except (ChildNotFound, ChildNotValid):
                                R.ok((v, f.name, 'prefix'))
                except Exception as e:
                    R.fail('C14:positional-exc:%s:%s' % (v, fname), 'C14:positional-raises:%s:%s:%s' % (type(e).__name__, v, seg),
                           'v%s positional addressing on %s raised %s: %s' % (v, fname, type(e).__name__, e))
                break
            # a name that designates no child of this parent
            s = Segment(seg, version=v)
            for bad in ('xyz_1', 'spm_1' if seg != 'SPM' else 'pid_1', seg.lower() + '_999' if not _open_ended(L, seg) else 'xyz_2', 'nonexistent_long_name'):
                try:
                    x = getattr(s, bad)
                    R.fail('C14:bad-name:%s:%s:%s' % (v, seg, bad), 'C14:unknown-name-accepted', 'v%s Segment(%s).%s returned %r' % (v, seg, bad, x))
                except (ChildNotFound, ChildNotValid):
                    R.ok((v, seg, 'bad', bad))
                except Exception as e:
                    R.fail('C14:bad-name-exc:%s:%s:%s' % (v, seg, bad), 'C14:unknown-name-raises:%s' % type(e).__name__, 'v%s Segment(%s).%s raised %s' % (v, seg, bad, e))
    # datatype override: long names follow the new datatype
    for v in ('2.4', '2.5'):
        try:
            f = Field('PID_3', datatype='CE', version=v)
            f.ce_1 = 'X'
            if f.identifier[0] is not f.children[0] if v == '2.5' else False:
                R.fail('C14:override-longname:%s' % v, 'C14:datatype-override-long-name', 'v%s Field(PID_3, CE).identifier' % v)
            else:
                R.ok(('override', v))
            try:
                x = f.id_number if v == '2.5' else f.id
                R.fail('C14:override-stale:%s' % v, 'C14:datatype-override-stale-long-name', 'v%s long name of the former datatype still resolves: %r' % (v, x))
            except (ChildNotFound, ChildNotValid):
                R.ok(('override-stale', v))
        except (ChildNotFound, ChildNotValid) as e:
            R.fail('C14:override:%s' % v, 'C14:datatype-override-long-name', 'v%s Field(PID_3, datatype=CE): %s' % (v, e))


def _open_ended(L, seg):
    try:
        return L.SEGMENTS[seg][1][-1][1][2] == 'varies'
    except Exception:
        return False


def tree(el):
    # (empty group objects - an artefact of the instance generator - have no counterpart in the text)
    return [(c.name, tree(c)) if c.classname == 'Group' else c.name for c in el.children
            if not (c.classname == 'Group' and not flat(c))]


def flat(el):
    out = []
    for c in el.children:
        if c.classname == 'Group':
            out.extend(flat(c))
        else:
            out.append(c.to_er7())
    return out


def declared(el, problems, path=''):
    for c in el.children:
        sb = el.structure_by_name or {}
        if c.name not in sb and not (c.classname == 'Segment' and c.name.upper().startswith('Z')) and el.classname == 'Group':
            problems.append('%s/%s is not a declared child' % (path or el.name, c.name))
        if c.classname == 'Group':
            declared(c, problems, (path + '/' if path else '') + str(el.name))


def run_c08(R, tier):
    from bounded import validation_d as V
    from hl7apy.parser import parse_message
    r = rng()
    versions = VERSIONS if tier == 'thorough' else ['2.3.1', '2.5', '2.6']
    for v in versions:
        L = lib(v)
        names = sorted(L.MESSAGES)
        if tier != 'thorough':
            pick = [n for n in V.CORE if n in names]
            rest = [n for n in names if n not in pick]
            r.shuffle(rest)
            chosen = pick + rest[:12]
            covered = set()
            for n in chosen:
                first_member_patterns(L.MESSAGES[n], covered)
            for n in rest[12:]:
                pats = set()
                first_member_patterns(L.MESSAGES[n], pats)
                if pats - covered and unique_places(L.MESSAGES[n]):
                    chosen.append(n)
                    covered |= pats
            names = chosen
        for mname in names:
            variants = []
            if '_' not in mname and v < '2.3.1':
                continue        # MSH-9 of these versions cannot name the structure of a message without a trigger event
            try:
                m = V.conforming(mname, v)
                if m is None:
                    continue
                variants.append(('required-only', m))
                # repeat every repeatable top-level group once more (depth 1) and a nested one (depth 2)
                m2 = V.conforming(mname, v)
                ref = L.MESSAGES[mname]
                for n, c, card, k in ref[1]:
                    if k == 'GRP' and card[1] != 1 and c is not None and getattr(m2, n.lower()):
                        from hl7apy.core import Group
                        g = Group(n, version=v, reference=c)
                        # (only when the instance's first segment is a direct, non-repeatable member: its recurrence is
                        #  what prescribes a new repetition; otherwise the text is ambiguous and nothing is prescribed)
                        if V.build(g, c, v, 2) and g.children and g.children[0].classname == 'Segment' \
                                and [cc[2][1] for cc in c[1] if cc[0] == g.children[0].name] == [1]:
                            # insert right after the existing instance to keep the segment order of the structure
                            idx = max(i for i, ch in enumerate(m2.children) if ch.name == n)
                            m2.children.insert(idx + 1, g)
                variants.append(('repeated-groups', m2))
                # all children (optional ones too), every repeatable group twice: a recurring optional non-repeatable
                # first member must open a new group repetition, a recurring repeatable member must not
                m3 = full_instance(mname, v)
                if m3 is not None:
                    variants.append(('all-children-repeated', m3))
            except Exception:
                continue
            for tag, mm in variants:
                # (an empty group instance of the generator encodes as an empty line: normalise)
                text = '\r'.join(l for l in mm.to_er7().split('\r') if l)
                try:
                    p1 = parse_message(text, find_groups=True)
                    p0 = parse_message(text, find_groups=False)
                except Exception as e:
                    R.fail('C08:parse-raises:%s:%s:%s' % (v, mname, tag), 'C08:parse-raises:%s' % type(e).__name__, 'v%s %s (%s): %s' % (v, mname, tag, e))
                    continue
                if p1.to_er7() != p0.to_er7():
                    R.fail('C08:encoding:%s:%s:%s' % (v, mname, tag), 'C08:group-finding-changes-encoding',
                           'v%s %s (%s): find_groups=True encodes %s, find_groups=False %s' % (v, mname, tag, short(p1.to_er7(), 150), short(p0.to_er7(), 150)))
                    continue
                if flat(p1) != [l for l in p0.to_er7().split('\r') if l] or [l[:3] for l in flat(p1)] != [l[:3] for l in text.split('\r') if l]:
                    R.fail('C08:flatten:%s:%s:%s' % (v, mname, tag), 'C08:flattening-differs', 'v%s %s (%s)' % (v, mname, tag))
                    continue
                pr = []
                declared(p1, pr)
                if pr:
                    R.fail('C08:undeclared:%s:%s:%s' % (v, mname, tag), 'C08:undeclared-child', 'v%s %s (%s): %s' % (v, mname, tag, pr[:2]))
                    continue
                if unique_places(L.MESSAGES[mname]):
                    if tree(p1) != tree(mm):
                        R.fail('C08:tree:%s:%s:%s' % (v, mname, tag), 'C08:group-tree-differs:%s:%s:%s' % (tag, v, mname),
                               'v%s %s (%s): parsed tree %s, prescribed %s' % (v, mname, tag, short(tree(p1), 200), short(tree(mm), 200)))
                        continue
                    rep = p1.validate(return_errors=True)
                    if rep.errors:
                        # attribution: when every error concerns a segment whose field table has a numbering gap (the
                        # table-gap families of C01/C02: the field is encoded at / parsed from the wrong index), the
                        # family is that segment, not the message
                        gaps = sorted(set(g for e in rep.errors for g in gap_segments(L, p1) if mentions(str(e), g)))
                        if gaps and all(any(mentions(str(e), g) for g in gaps) for e in rep.errors):
                            fam = 'C08:regrouped-message-invalid:table-gap:%s:%s' % (v, '+'.join(gaps))
                        else:
                            fam = 'C08:regrouped-message-invalid:%s:%s:%s' % (tag, v, mname)
                        R.fail('C08:invalid:%s:%s:%s' % (v, mname, tag), fam,
                               'v%s %s (%s): %s' % (v, mname, tag, [str(e) for e in rep.errors[:2]]))
                        continue
                R.ok((v, mname, tag), {'version': v, 'message': mname, 'tree': tree(p1)} if len(R.samples) < 2 else None)
    # determinism across versions within one process: the same group name parsed under two versions
    for a_, b_ in (('2.4', '2.5'), ('2.5', '2.4')):
        outs = []
        for v in (a_, b_, a_):
            try:
                from bounded import validation_d as V2
                m = V2.conforming('VXU_V04' if 'VXU_V04' in lib(v).MESSAGES else 'ORU_R01', v)
                t = m.to_er7()
                outs.append((v, tree(parse_message(t, find_groups=True)), t))
            except Exception as e:
                outs.append((v, 'EXC', str(e)))
        if outs[0][1] != outs[2][1]:
            R.fail('C08:order-dependent:%s-%s' % (a_, b_), 'C08:result-depends-on-earlier-parses', 'tree for v%s changed after parsing v%s' % (a_, b_))
        else:
            R.ok(('determinism', a_, b_))


def gap_segments(L, msg):
    out = []
    for line in flat(msg):
        seg = line[:3]
        try:
            names = [c[0] for c in L.SEGMENTS[seg][1]]
        except Exception:
            continue
        if names != ['%s_%d' % (seg, i + 1) for i in range(len(names))] and seg not in out:
            out.append(seg)
    return out


def mentions(err, seg):
    import re
    return re.search(r'(<Segment %s>|\b%s_\d+\b|\b%s\.)' % (seg, seg, seg), err) is not None


def full_instance(mname, v):
    from bounded import validation_d as V
    from hl7apy.core import Message, Group, Segment
    L = lib(v)
    ref = L.MESSAGES[mname]
    if V.has_duplicate_names(ref):
        return None
    m = V.conforming(mname, v)
    if m is None:
        return None
    for ch in list(m.children)[1:]:
        m.children.remove(ch)

    def add_all(parent, r, depth=0):
        for n, c, card, k in r[1]:
            if n == 'MSH':
                continue
            if k == 'SEG':
                if n == 'ANYHL7SEGMENT' or n.startswith('Z') or c is None:
                    continue
                reps = 2 if card[1] != 1 else 1
                for _ in range(reps):
                    s = Segment(n, version=v, reference=c)
                    if not V.fill_segment(s, c, v):
                        return False
                    parent.add(s)
            else:
                if c is None or depth > 4:
                    return False
                # a group is repeated only when its first member is non-repeatable: that recurrence is what opens a
                # new repetition (with a repeatable first member the text is ambiguous and nothing is prescribed)
                reps = 2 if card[1] != 1 and c[1] and c[1][0][2][1] == 1 else 1
                for _ in range(reps):
                    g = Group(n, version=v, reference=c)
                    if not add_all(g, c, depth + 1):
                        return False
                    parent.add(g)
        return True
    try:
        if not add_all(m, ref):
            return None
    except Exception:
        return None
    return m


def first_member_patterns(ref, out, depth=0):
    for n, c, card, k in ref[1]:
        if k == 'GRP' and c is not None and depth < 5:
            if card[1] != 1 and c[1]:
                out.add(tuple(c[1][0][2]))
            first_member_patterns(c, out, depth + 1)


def unique_places(ref):
    names = []

    def walk(r, depth=0):
        for n, c, card, k in r[1]:
            if k == 'SEG':
                names.append(n)
            elif c is not None and depth < 6:
                walk(c, depth + 1)
    walk(ref)
    return len(names) == len(set(names))


def main():
    a = args()
    R = Result('names')
    if a.property == 'C14':
        run_c14(R, a.tier)
    else:
        run_c08(R, a.tier)
    R.rule = 'see module docstring'
    R.bound = 'see module docstring (%s tier)' % a.tier
    R.dump(a.out)


if __name__ == '__main__':
    try:
        main()
    except Exception:
        traceback.print_exc()
        sys.exit(3)
