"""BOUNDED stand-in for C13: acceptance of DT / TM / DTM / NM / SI strings against the HL7 lexical definitions (written here
from the property, independently of the code), text preservation, TOLERANT never rejecting, STRICT length limits.
Bound: the complete time-of-day grid (hours x minutes x seconds subsets), all offsets -1500..+1500 in steps that cover
every hour and the minute boundaries, calendar boundaries for years 1000-9999 (sampled years incl. leap rules), all
strings up to length 4 (quick) / 5 (thorough) over {digits 0 1 2 9, '.', '+', '-', ' ', 'e'} for NM / SI."""
import calendar
import itertools
import re
import sys

from bounded.lib import *   # noqa


def spec_dt(s):
    if not re.fullmatch(r'[0-9]{4}([0-9]{2}([0-9]{2})?)?', s):
        return False
    y = int(s[:4])
    if y < 1000:
        return False
    if len(s) >= 6:
        mo = int(s[4:6])
        if not 1 <= mo <= 12:
            return False
        if len(s) == 8:
            d = int(s[6:8])
            if not 1 <= d <= calendar.monthrange(y, mo)[1]:
                return False
    return True


def spec_offset(o):
    if not re.fullmatch(r'[+-][0-9]{4}', o):
        return False
    hh, mm = int(o[1:3]), int(o[3:5])
    if mm > 59:
        return False
    if o[0] == '+':
        return hh < 14 or (hh == 14 and mm == 0)
    return hh < 12 or (hh == 12 and mm == 0)


def spec_time_part(t):
    m = re.fullmatch(r'([0-9]{2})(([0-9]{2})(([0-9]{2})(\.[0-9]{1,4})?)?)?', t)
    if not m:
        return False
    if int(m.group(1)) > 23:
        return False
    if m.group(3) is not None and int(m.group(3)) > 59:
        return False
    if m.group(5) is not None and int(m.group(5)) > 59:
        return False
    return True


def split_off(s):
    m = re.search(r'[+-][0-9]{4}$', s)
    if m:
        return s[:m.start()], m.group(0)
    return s, ''


def spec_tm(s):
    body, off = split_off(s)
    if '+' in body or '-' in body:
        return False
    return spec_time_part(body) and (off == '' or spec_offset(off))


def spec_dtm(s):
    body, off = split_off(s)
    if '+' in body or '-' in body:
        return False
    if off and not spec_offset(off):
        return False
    if len(body) <= 8:
        return spec_dt(body)
    return spec_dt(body[:8]) and spec_time_part(body[8:])


def spec_nm(s):
    return re.fullmatch(r'[+-]?[0-9]+(\.[0-9]+)?', s) is not None


def spec_si(s):
    return re.fullmatch(r'[0-9]{1,4}', s) is not None


SPEC = {'DT': spec_dt, 'TM': spec_tm, 'DTM': spec_dtm, 'NM': spec_nm, 'SI': spec_si}


def family(dt, s, kind):
    """narrow identity of an over/under-acceptance (lexical family)"""
    if dt in ('TM', 'DTM'):
        body, off = split_off(s)
        if off and re.fullmatch(r'\+14[0-9]{2}', off) and off != '+1400':
            return 'C13:%s:%s:offset+14mm' % (dt, kind)
        if off and re.fullmatch(r'-12[0-9]{2}', off) and off != '-1200':
            return 'C13:%s:%s:offset-12mm' % (dt, kind)
    if ' ' in s:
        return 'C13:%s:%s:blank' % (dt, kind)
    if any(ord(c) > 127 for c in s):
        return 'C13:%s:%s:non-ascii-digit' % (dt, kind)
    if dt in ('NM', 'SI'):
        if 'e' in s.lower():
            return 'C13:%s:%s:exponent' % (dt, kind)
        if '_' in s:
            return 'C13:%s:%s:underscore' % (dt, kind)
        if s.lower() in ('nan', 'inf', 'infinity', '+nan', '-nan', '+inf', '-inf', '+infinity', '-infinity', 'snan'):
            return 'C13:%s:%s:nan-inf' % (dt, kind)
        if dt == 'SI' and s[:1] in '+-':
            return 'C13:SI:%s:sign' % kind
        if dt == 'NM' and (re.fullmatch(r'[+-]?\.[0-9]*', s) or re.fullmatch(r'[+-]?[0-9]+\.', s)):
            return 'C13:NM:%s:bare-point' % kind
        if re.fullmatch(r'[+-]?0[0-9]+(\.[0-9]+)?', s):
            return 'C13:%s:%s:leading-zeros' % (dt, kind)
        if dt == 'NM' and s[:1] == '+':
            return 'C13:NM:%s:explicit-plus' % kind
        if dt == 'SI' and len(s) > 4:
            return 'C13:SI:%s:more-than-4-digits' % kind
    if dt in ('DT', 'DTM') and re.fullmatch(r'0[0-9]{3}.*', s):
        return 'C13:%s:%s:year-below-1000' % (dt, kind)
    return 'C13:%s:%s:other:%s' % (dt, kind, s[:12])


def corpus(dt, tier):
    out = set()
    if dt == 'DT' or dt == 'DTM':
        years = [1000, 1900, 2000, 2019, 2020, 2100, 9999] if tier != 'thorough' else [1000, 1600, 1700, 1900, 2000, 2019, 2020, 2023, 2024, 2100, 2400, 9999]
        for y in years:
            ys = '%04d' % y
            out.add(ys)
            for mo in range(0, 14):
                out.add('%s%02d' % (ys, mo))
                for d in (0, 1, 28, 29, 30, 31, 32):
                    out.add('%s%02d%02d' % (ys, mo, d))
        out |= {'2020', '202', '20201', '2020011', '202001 5', '2020 105', '２０２０', '20200230', 'abcd', '', '2020-01'}
    if dt == 'TM' or dt == 'DTM':
        pre = '' if dt == 'TM' else '20200131'
        hs = range(0, 26) if tier == 'thorough' else (0, 1, 9, 12, 23, 24, 25)
        ms = (0, 1, 30, 59, 60, 61)
        for h in hs:
            out.add('%s%02d' % (pre, h))
            for m in ms:
                out.add('%s%02d%02d' % (pre, h, m))
                for sec in ms:
                    out.add('%s%02d%02d%02d' % (pre, h, m, sec))
        for frac in ('.1', '.12', '.123', '.1234', '.12345', '.', '.a'):
            out.add('%s120434%s' % (pre, frac))
        offs = []
        for sign in '+-':
            for hh in range(0, 16):
                for mm in (0, 1, 30, 59, 60):
                    offs.append('%s%02d%02d' % (sign, hh, mm))
        for o in offs:
            out.add('%s1200%s' % (pre, o))
            out.add('%s120434.05%s' % (pre, o))
        out |= {pre + x for x in ('12+', '12+02', '1200+020', '1200+02000', '12 00', '1200Z', '+1401', '1', '123', '12345')}
    if dt in ('NM', 'SI'):
        alpha = '0129.+- e'
        n = 5 if tier == 'thorough' else 4
        for k in range(0, n + 1):
            for t in itertools.product(alpha, repeat=k):
                out.add(''.join(t))
        out |= {'12345', '123456', '1e5', 'NaN', 'Infinity', '-inf', '1_0', '٣', '+1.0', '1.50', '0012', '12345678901234567', '1' * 20}
    return sorted(out)


def main():
    a = args()
    R = Result('datatypes')
    from hl7apy.factories import datatype_factory
    from hl7apy.exceptions import MaxLengthReached
    versions = VERSIONS if a.tier == 'thorough' else ['2.3', '2.5', '2.8.2']
    MAXLEN = {'NM': 16, 'SI': 4}
    for v in versions:
        base = lib(v).get_base_datatypes()
        for dt in ('DT', 'TM', 'DTM', 'NM', 'SI'):
            if dt not in base:
                continue
            for s in corpus(dt, a.tier):
                if s == '':
                    continue
                want = SPEC[dt](s)
                # ---- STRICT acceptance
                try:
                    o = datatype_factory(dt, s, version=v, validation_level=1)
                    acc = True
                    exc = None
                except Exception as e:
                    acc = False
                    exc = e
                if want and dt in MAXLEN and len(s) > MAXLEN[dt]:
                    if acc or not isinstance(exc, MaxLengthReached):
                        R.fail('C13:maxlen:%s:%s:%s' % (v, dt, s), 'C13:%s:maxlen-not-enforced' % dt,
                               'v%s STRICT %s(%r) longer than %d: %s' % (v, dt, s, MAXLEN[dt], 'accepted' if acc else type(exc).__name__))
                    else:
                        R.ok((v, dt, s))
                    continue
                if acc and not want:
                    R.fail('C13:over-accept:%s:%s:%r' % (v, dt, s), family(dt, s, 'over-accept'),
                           'v%s STRICT accepts %s %r which is not a valid HL7 %s (encodes back as %r)' % (v, dt, s, dt, safe_er7(o)),
                           'from hl7apy.factories import datatype_factory\ndatatype_factory(%r, %r, version=%r, validation_level=1)' % (dt, s, v), cap=30)
                elif not acc and want:
                    R.fail('C13:under-accept:%s:%s:%r' % (v, dt, s), family(dt, s, 'under-accept:%s' % type(exc).__name__),
                           'v%s STRICT rejects the valid %s %r with %s: %s' % (v, dt, s, type(exc).__name__, exc), cap=30)
                elif acc:
                    back = safe_er7(o)
                    same = back == s
                    if dt in ('NM',) and not same:
                        try:
                            from decimal import Decimal
                            same = Decimal(back) == Decimal(s) and (not re.fullmatch(r'[0-9]+(\.[0-9]+)?', s) or back == s)
                        except Exception:
                            same = False
                    if dt == 'SI' and not same:
                        same = back.lstrip('0') == s.lstrip('0') and s.isdigit() and False or back == str(int(s))
                    if not same:
                        R.fail('C13:text-changed:%s:%s:%r' % (v, dt, s), family(dt, s, 'text-changed'),
                               'v%s %s %r is accepted but encodes back as %r' % (v, dt, s, back), cap=30)
                    else:
                        R.ok((v, dt, s), {'version': v, 'datatype': dt, 'text': s} if len(R.samples) < 3 else None)
                else:
                    R.ok((v, dt, s))
                # ---- TOLERANT: never rejects, preserves the text
                try:
                    t = datatype_factory(dt, s, version=v, validation_level=2)
                    back = safe_er7(t)
                    if not want and back != s:
                        R.fail('C13:tolerant-text:%s:%s:%r' % (v, dt, s), family(dt, s, 'tolerant-text-changed'),
                               'v%s TOLERANT %s %r encodes back as %r' % (v, dt, s, back), cap=30)
                except Exception as e:
                    R.fail('C13:tolerant-rejects:%s:%s:%r' % (v, dt, s), family(dt, s, 'tolerant-rejects:%s' % type(e).__name__),
                           'v%s TOLERANT rejects %s %r with %s: %s' % (v, dt, s, type(e).__name__, e), cap=30)
    # TN (telephone number, versions up to 2.4): STRICT admits only strings of the HL7 TN format
    #   [NN] [(999)]999-9999[X99999][B99999][C any text]    (anchored at the start)
    tn_ok = ['5551234', '555-1234', '(070)9250123', '12 (070)555-1234X12B3Ctext', '5551234X99', '555-1234Canything goes']
    tn_bad = ['ext 5551234', 'home: (070)9250123', 'n/a (none) 00', 'abc', 'X12', '-555', 'tel 12']
    for v in VERSIONS:
        base = lib(v).get_base_datatypes()
        if 'TN' not in base:
            continue
        for s, want in [(x, True) for x in tn_ok] + [(x, False) for x in tn_bad]:
            try:
                datatype_factory('TN', s, version=v, validation_level=1)
                acc = True
            except Exception:
                acc = False
            if acc != want:
                R.fail('C13:TN:%s:%r' % (v, s), 'C05:TN:%s' % ('over-accept' if acc else 'under-accept'),
                       'v%s STRICT %s the %s TN literal %r' % (v, 'accepts' if acc else 'rejects', 'invalid' if acc else 'valid', s))
            else:
                R.ok((v, 'TN', s))
            try:
                t = datatype_factory('TN', s, version=v, validation_level=2)
                if t.to_er7() != s:
                    R.fail('C13:TN-tolerant-text:%s:%r' % (v, s), 'C05:TN:tolerant-text-changed', 'v%s %r -> %r' % (v, s, t.to_er7()))
            except Exception as e:
                R.fail('C13:TN-tolerant:%s:%r' % (v, s), 'C05:TN:tolerant-rejects', 'v%s TOLERANT rejects %r: %s' % (v, s, e))
    R.rule = 'lexical corpus per datatype (grids + exhaustive short strings); oracle = HL7 lexical definitions restated from the property'
    R.bound = 'NM/SI strings <= %d chars over 9 symbols; full offset grid; %d versions' % (5 if a.tier == 'thorough' else 4, len(versions))
    R.dump(a.out)


def safe_er7(o):
    try:
        return o.to_er7()
    except Exception as e:
        return 'EXC:%s' % type(e).__name__


if __name__ == '__main__':
    try:
        main()
    except Exception:
        traceback.print_exc()
        sys.exit(3)
