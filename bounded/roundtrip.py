"""BOUNDED stand-in for C01 / C02 / C03 / C07 (end to end): table-driven canonical texts through the real parser and
encoder.  Bound: every version; quick = a seeded sample of segments per version (plus a fixed core list), thorough =
every segment; field values built from the structure tables to component / subcomponent depth."""
import sys

from bounded.lib import *   # noqa

CORE = ['PID', 'PV1', 'OBX', 'OBR', 'EVN', 'NK1', 'MSA', 'ORC', 'QPD', 'NTE', 'AL1', 'DG1']


def gen_leaf(L, v, ref, tag):
    return leaf(v, ref[2] if len(ref) > 2 else 'ST', tag)


def gen_field(L, v, ref, tag, mode):
    """text of one field (no repetition) from its reference; mode 'first' fills the first leaf only, 'full' fills all"""
    if ref[0] == 'leaf' or not ref[1]:
        return gen_leaf(L, v, ref, tag)
    comps = []
    for ci, c in enumerate(ref[1]):
        cref = c[1]
        if mode == 'first' and ci > 0:
            break
        if cref[0] == 'leaf' or not cref[1]:
            comps.append(gen_leaf(L, v, cref, '%s%d' % (tag, ci)))
        else:
            subs = []
            for si, s in enumerate(cref[1]):
                if mode == 'first' and si > 0:
                    break
                sref = s[1]
                if sref[0] != 'leaf' and sref[1]:
                    # deeper nesting than subcomponents cannot be expressed in ER7: first leaf only
                    subs.append(gen_leaf(L, v, sref[1][0][1], ''))
                    break
                subs.append(gen_leaf(L, v, sref, '%s%d%d' % (tag, ci, si)))
            comps.append('&'.join(subs))
    return '^'.join(comps)


def well_formed(seg, kids):
    return bool(kids) and all(c[0] == '%s_%d' % (seg, i + 1) for i, c in enumerate(kids))


def main():
    a = args()
    R = Result('roundtrip')
    from hl7apy.parser import parse_segment, parse_field, parse_message, parse_component
    r = rng()
    versions = VERSIONS
    for v in versions:
        L = lib(v)
        segs = sorted(s for s in L.SEGMENTS if s not in ('MSH', 'ANYHL7SEGMENT'))
        if a.tier != 'thorough':
            pick = [s for s in CORE if s in segs]
            rest = [s for s in segs if s not in pick]
            r.shuffle(rest)
            segs = pick + rest[:18]
        for seg in segs:
            ref = L.SEGMENTS[seg]
            try:
                kids = ref[1]
            except Exception:
                continue
            if not well_formed(seg, kids):
                continue            # table rows reported by the ground check
            last_varies = kids[-1][1][2] == 'varies' if len(kids[-1][1]) > 2 else False
            for mode in ('first', 'full'):
                vals = [gen_field(L, v, c[1], str(i % 7), mode) for i, c in enumerate(kids)]
                text = seg + '|' + '|'.join(vals)
                try:
                    out = parse_segment(text, version=v).to_er7()
                except Exception as e:
                    R.fail('roundtrip-exc:%s:%s:%s' % (v, seg, mode), 'roundtrip-exc:%s:%s' % (v, seg),
                           'v%s parse_segment(%s).to_er7() raises %s: %s' % (v, short(text), type(e).__name__, e))
                    continue
                if out != text:
                    # locate the first differing field for a narrow identity
                    fo, ft = out.split('|'), text.split('|')
                    k = next((i for i in range(min(len(fo), len(ft))) if fo[i] != ft[i]), min(len(fo), len(ft)))
                    R.fail('roundtrip:%s:%s:%s:%d' % (v, seg, mode, k), 'roundtrip:%s:%s_%d' % (v, seg, k),
                           'v%s segment round trip differs at %s-%d: in %s out %s' % (v, seg, k, short(ft[k] if k < len(ft) else ''), short(fo[k] if k < len(fo) else '')),
                           "from hl7apy.parser import parse_segment\nt=%r\nassert parse_segment(t, version=%r).to_er7()==t" % (text, v))
                else:
                    R.ok((v, seg, mode), {'version': v, 'text': text[:120]} if seg == 'PID' else None)
            # field / component level on the first complex field
            for i, c in enumerate(kids[:12]):
                fv = gen_field(L, v, c[1], 'f', 'full')
                if not fv:
                    continue
                try:
                    out = parse_field(fv, name=c[0], version=v).to_er7()
                    if out != fv:
                        R.fail('field-roundtrip:%s:%s' % (v, c[0]), 'field-roundtrip:%s:%s' % (v, c[0]),
                               'v%s parse_field(%s, %s).to_er7() == %s' % (v, short(fv), c[0], short(out)))
                    else:
                        R.ok((v, c[0]))
                except Exception as e:
                    R.fail('field-roundtrip-exc:%s:%s' % (v, c[0]), 'field-roundtrip-exc:%s:%s' % (v, c[0]),
                           'v%s parse_field(%s, name=%s) raises %s: %s' % (v, short(fv), c[0], type(e).__name__, e))
        # leaf text with escape sequences is stored and re-emitted verbatim (C01 "incl. escape sequences", C06 E4)
        esc_leaf = 'C:\\E\\temp\\E\\x \\F\\1\\S\\2\\T\\3\\R\\4 \\H\\hi\\N\\' + ('\\L\\' if v >= '2.7' else '')
        for what, fn_, txt in (('segment', lambda t: parse_segment(t, version=v).to_er7(), 'NTE|1||' + esc_leaf),
                               ('field', lambda t: parse_field(t, name='NTE_3', version=v).to_er7(), esc_leaf),
                               ('component', lambda t: parse_component(t, datatype='ST', version=v).to_er7(), esc_leaf)):
            try:
                out = fn_(txt)
                if out != txt:
                    R.fail('escape-roundtrip:%s:%s' % (v, what), 'escape-sequences-not-preserved:%s' % what,
                           'v%s parse_%s(%s).to_er7() == %s' % (v, what, short(txt), short(out)),
                           'from hl7apy.parser import parse_segment\nt=%r\nassert parse_segment(t, version=%r).to_er7()==t' % ('NTE|1||' + esc_leaf, v))
                else:
                    R.ok((v, 'escape', what))
            except Exception as e:
                R.fail('escape-roundtrip-exc:%s:%s' % (v, what), 'escape-sequences-raise:%s' % type(e).__name__, 'v%s %s: %s' % (v, what, e))
        # message level, group finding on and off (C01, C03, C08.G3)
        for mname, body in message_corpus(v):
            msh = 'MSH|^~\\&|SND|FAC|RCV|FAC|20200131120000||%s|MSGID1|P|%s' % (mname, v)
            text = '\r'.join([msh] + body)
            outs = {}
            for fg in (True, False):
                try:
                    outs[fg] = parse_message(text, find_groups=fg).to_er7()
                except Exception as e:
                    outs[fg] = 'EXC:%s:%s' % (type(e).__name__, e)
                if outs[fg] != text:
                    lost = [l[:3] for l in text.split('\r') if l not in outs[fg].split('\r')]
                    R.fail('msg-roundtrip:%s:%s:%s' % (v, mname, fg), 'msg-roundtrip:%s:%s:fg=%s:%s' % (v, mname.split('^')[-1], fg, ','.join(lost)[:40]),
                           'v%s %s find_groups=%s: round trip differs (lines affected: %s); out=%s' % (v, mname, fg, lost, short(outs[fg], 300)),
                           "from hl7apy.parser import parse_message\nt=%r\nassert parse_message(t, find_groups=%r).to_er7()==t" % (text, fg))
                else:
                    R.ok((v, mname, fg))
        # C03: segments the structure does not list, Z-segments, repeated segments, fields beyond the defined count
        c = message_corpus(v)
        if c:
            mname, body = c[0]
            msh = 'MSH|^~\\&|SND|FAC|RCV|FAC|20200131120000||%s|MSGID1|P|%s' % (mname, v)
            extras = ['ZZZ|1|2^3', 'NTE|1||free text', 'ZPD|a|b', body[-1]]
            for pos in range(1, len(body) + 1):
                for ex in extras:
                    lines = body[:pos] + [ex] + body[pos:]
                    text = '\r'.join([msh] + lines)
                    for fg in (True, False):
                        try:
                            out = parse_message(text, find_groups=fg).to_er7()
                        except Exception as e:
                            # content that cannot be placed may surface as an exception, never as a shorter message
                            R.ok((v, 'c03-exc', pos, ex[:3], fg))
                            continue
                        got = [l for l in out.split('\r') if l]
                        want = [l for l in text.split('\r') if l]
                        if [l[:3] for l in got] != [l[:3] for l in want]:
                            R.fail('C03:segments:%s:%s:%d:%s' % (v, ex[:3], pos, fg), 'C03:segment-sequence-changed:%s:fg=%s' % (ex[:3], fg),
                                   'v%s find_groups=%s: input segments %s, output %s' % (v, fg, [l[:3] for l in want], [l[:3] for l in got]),
                                   "from hl7apy.parser import parse_message\nt=%r\nprint(parse_message(t, find_groups=%r).to_er7())" % (text, fg))
                        elif [leaves(l) for l in got] != [leaves(l) for l in want]:
                            R.fail('C03:leaves:%s:%s:%d:%s' % (v, ex[:3], pos, fg), 'C03:leaf-sequence-changed:%s:fg=%s' % (ex[:3], fg),
                                   'v%s find_groups=%s: leaves differ: %s vs %s' % (v, fg, short(out, 200), short(text, 200)))
                        else:
                            R.ok((v, 'c03', pos, ex[:3], fg))
            # values holding characters that are line boundaries for str.splitlines() but not segment terminators
            for ch in ('\x0c', '\x1d', '\x85', '\u2028', '\n'):
                text = '\r'.join([msh] + body + ['NTE|1||first' + ch + 'second'])
                for fg in (True, False):
                    try:
                        out = parse_message(text, find_groups=fg).to_er7()
                        if out != text:
                            R.fail('C03:line-boundary-char:%s:%r:%s' % (v, ch, fg), 'C03:value-cut-at-non-CR-line-boundary',
                                   'v%s find_groups=%s: a value containing %r is not preserved: %s' % (v, fg, ch, short(out[-60:])))
                        else:
                            R.ok((v, 'linechar', ch, fg))
                    except Exception:
                        R.ok((v, 'linechar-exc', ch, fg))
            # `varies` fields with an empty component before a valued one (OBX-5, QPD-3 and beyond)
            if 'OBX' in L.SEGMENTS and well_formed('OBX', L.SEGMENTS['OBX'][1]) and len(L.SEGMENTS['OBX'][1]) >= 5:
                for val in ('182^^L', '^^L', '^Staph aureus^L', 'a&b^^c~^^d'):
                    for seg_text in ('OBX|1|CE|ORG^Organism^L||' + val, ):
                        try:
                            out = parse_segment(seg_text, version=v).to_er7()
                            if out != seg_text:
                                R.fail('C03:varies-gap:%s:%s' % (v, val), 'C03:varies-field-component-lost',
                                       'v%s parse_segment(%r).to_er7() == %r' % (v, seg_text, out))
                            else:
                                R.ok((v, 'varies', val))
                        except Exception as e:
                            R.fail('C03:varies-gap-exc:%s:%s' % (v, val), 'C03:varies-field-raises:%s' % type(e).__name__,
                                   'v%s parse_segment(%r).to_er7() raised %s: %s' % (v, seg_text, type(e).__name__, e))
            over = body[0] + '|' * 40 + 'BEYOND'
            text = '\r'.join([msh, over] + body[1:])
            for fg in (True, False):
                try:
                    out = parse_message(text, find_groups=fg).to_er7()
                    if 'BEYOND' not in out:
                        R.fail('C03:beyond-count:%s:%s' % (v, fg), 'C03:field-beyond-count-dropped', 'v%s: a field beyond the defined count was dropped' % v)
                    else:
                        R.ok((v, 'beyond', fg))
                except Exception:
                    R.ok((v, 'beyond-exc', fg))
    R.rule = 'canonical texts generated from the structure tables; non-trivial = distinct (version, element, mode)'
    R.bound = 'all 12 versions; %s segments per version; fields to subcomponent depth; 3 message types x find_groups' % (
        'all' if a.tier == 'thorough' else 'core list + 18 seeded')
    R.dump(a.out)


def leaves(line):
    import re
    return [x for x in re.split(r'[|^&~]', line) if x]


def message_corpus(v):
    """(MSH-9, body lines) using segments whose definitions are well formed in that version"""
    L = lib(v)
    out = []

    def line(seg, n=3):
        kids = L.SEGMENTS[seg][1]
        if not well_formed(seg, kids):
            return None
        vals = [gen_field(L, v, c[1], '', 'first') for c in kids[:n]]
        while vals and not vals[-1]:
            vals.pop()
        return seg + '|' + '|'.join(vals)
    if 'ADT_A01' in L.MESSAGES:
        body = [line('EVN', 2), line('PID', 5), line('PV1', 3)]
        if all(body):
            out.append(('ADT^A01^ADT_A01', body))
    if 'ORU_R01' in L.MESSAGES:
        body = [line('PID', 5), line('OBR', 4), line('OBX', 3), line('OBX', 3), line('OBR', 4), line('OBX', 3)]
        if all(body):
            out.append(('ORU^R01^ORU_R01', body))
    if 'OML_O33' in L.MESSAGES:
        body = [line('PID', 5), line('SPM', 2), line('ORC', 2), line('OBR', 4), line('SPM', 2), line('ORC', 2)]
        if all(body):
            out.append(('OML^O33^OML_O33', body))
    return out


if __name__ == '__main__':
    try:
        main()
    except Exception:
        traceback.print_exc()
        sys.exit(3)
