"""BOUNDED stand-in for C09 / C10 / C11 / C12 (and the API half of C05): every sequence of operations up to a length
bound over a fixed alphabet of concrete API calls on a segment (and a smaller alphabet on a message), executed on the
real code and compared, after every step, with a plain reference model (per child name an ordered list of
repetitions), with the tree-consistency invariants (C10), the read-purity check (C11) and the
rejected-operation-leaves-the-target-unchanged check (C12).
Bound: quick = all sequences of length <= 3, thorough = length <= 4 (segment alphabet 20 ops, message alphabet 11 ops)."""
import itertools
import sys

from bounded.lib import *   # noqa

V = '2.5'


# ---------------------------------------------------------------------------------------------------
class Model(object):
    """reference model of a segment: name -> list of repetition texts, encoded by field number"""

    def __init__(self, seg):
        self.seg = seg
        self.reps = {}

    def copy(self):
        m = Model(self.seg)
        m.reps = {k: list(v) for k, v in self.reps.items()}
        return m

    def enc(self):
        if not any(self.reps.values()):
            return self.seg
        last = max(int(k.split('_')[1]) for k, v in self.reps.items() if v)
        cols = []
        for i in range(1, last + 1):
            cols.append('~'.join(self.reps.get('%s_%d' % (self.seg, i), [])))
        return self.seg + '|' + '|'.join(cols)


def seg_ops():
    """(label, apply_to_real(s, other), apply_to_model(m) -> None | 'raises')"""
    from hl7apy.core import Field
    ops = []

    def set_name(name, text):
        def real(s, o):
            setattr(s, name.lower(), text)

        def model(m):
            r = m.reps.setdefault(name, [])
            if r:
                r[0] = text
            else:
                r.append(text)
        return ('%s=%r' % (name.lower(), text), real, model)

    def set_index(name, i, text):
        def real(s, o):
            getattr(s, name.lower())[i] = text

        def model(m):
            r = m.reps.setdefault(name, [])
            if -len(r) <= i < len(r):
                r[i] = text
            else:
                r.append(text)
        return ('%s[%d]=%r' % (name.lower(), i, text), real, model)

    def add_field(name, text):
        def real(s, o):
            f = s.add_field(name)
            f.value = text

        def model(m):
            m.reps.setdefault(name, []).append(text)
        return ('add_field(%s)=%r' % (name, text), real, model)

    def add_obj(name, text):
        def real(s, o):
            f = Field(name, version=V, validation_level=s.validation_level)
            f.value = text
            s.add(f)

        def model(m):
            m.reps.setdefault(name, []).append(text)
        return ('add(Field(%s)=%r)' % (name, text), real, model)

    def del_name(name):
        def real(s, o):
            delattr(s, name.lower())

        def model(m):
            r = m.reps.get(name, [])
            if not r:
                return 'raises'
            r.pop(0)
        return ('del %s' % name.lower(), real, model)

    def del_index(name, i):
        def real(s, o):
            del getattr(s, name.lower())[i]

        def model(m):
            r = m.reps.get(name, [])
            if not (-len(r) <= i < len(r)):
                return 'raises'
            r.pop(i)
        return ('del %s[%d]' % (name.lower(), i), real, model)

    def copy_from(name):
        def real(s, o):
            setattr(s, name.lower(), getattr(o, name.lower()))

        def model(m):
            r = m.reps.setdefault(name, [])
            text = {'PID_5': 'DOE^JOHN', 'PID_3': 'ID9^^^HOSP'}[name]
            if r:
                r[0] = text
            else:
                r.append(text)
        return ('%s=other.%s' % (name.lower(), name.lower()), real, model)

    def bad_name(name, text):
        def real(s, o):
            setattr(s, name, text)

        def model(m):
            return 'raises'
        return ('%s=%r (rejected)' % (name, text), real, model)

    def trav_write(path, text, name, reptext):
        """assignment at the end of a chain of reads: creates exactly the elements on the chain (C11)"""
        def real(s, o):
            obj = s
            parts = path.split('.')
            for p in parts[:-1]:
                obj = getattr(obj, p)
            setattr(obj, parts[-1], text)

        def model(m):
            r = m.reps.setdefault(name, [])
            if r:
                return 'skip'         # composite update of an existing repetition: not modelled
            r.append(reptext)
        return ('%s=%r' % (path, text), real, model)

    def read_then_write(read_path, name, text):
        """C11: a deeper read of the same chain, then a write to the intermediate element"""
        def real(s, o):
            obj = s
            for p in read_path.split('.'):
                obj = getattr(obj, p)
            _ = len(obj)
            setattr(s, name.lower(), text)

        def model(m):
            r = m.reps.setdefault(name, [])
            if r:
                r[0] = text
            else:
                r.append(text)
        return ('read %s; %s=%r' % (read_path, name.lower(), text), real, model)

    def trav_reject(path, value):
        """C12: a rejected assignment through a traversal chain must not leave the intermediate elements attached"""
        def real(s, o):
            obj = s
            parts = path.split('.')
            for p in parts[:-1]:
                obj = getattr(obj, p)
            setattr(obj, parts[-1], value)

        def model(m):
            return 'raises'
        return ('%s=%r (rejected)' % (path, value), real, model)

    ops += [trav_write('pid_5.xpn_2', 'JACK', 'PID_5', '^JACK'), trav_write('pid_3.cx_4.hd_1', 'HOSP', 'PID_3', '^^^HOSP'),
            read_then_write('pid_5.xpn_1.fn_1', 'PID_5', 'A^B'), trav_reject('pid_6.xpn_1', 5),
            trav_reject('pid_13.cx_1', None) if False else trav_reject('pid_9.xpn_2', ['x'])]
    ops += [set_name('PID_3', 'A'), set_name('PID_3', 'B^^^X'), set_name('PID_5', 'SMITH^J'), set_name('PID_8', 'M'),
            set_index('PID_3', 1, 'C'), set_index('PID_3', 0, 'D'),
            add_field('PID_3', 'E'), add_obj('PID_3', 'F'), add_obj('PID_5', 'ROSSI^M'),
            del_name('PID_3'), del_index('PID_3', 1), del_name('PID_8'),
            copy_from('PID_5'), copy_from('PID_3'),
            bad_name('spm_1', 'X')]
    return ops


def consistency(el, R, where):
    """C10: every listed child reports the element as parent; lookup by name, positional lookup, iteration, len and
    containment agree"""
    kids = list(el.children)
    problems = []
    if len(kids) != len(el.children):
        problems.append('len mismatch')
    for i, c in enumerate(kids):
        if c.parent is not el:
            problems.append('child %d (%s) has parent %r' % (i, c.name, c.parent))
        if el.children[i] is not c:
            problems.append('positional lookup %d differs from iteration' % i)
        if c not in el.children:
            problems.append('containment fails for child %d' % i)
        if c.version != el.version or c.validation_level != el.validation_level:
            problems.append('child %d has another version / level' % i)
    if len(set(id(c) for c in kids)) != len(kids):
        problems.append('an object is listed twice')
    by_name = {}
    for c in kids:
        by_name.setdefault(c.name, []).append(c)
    for n, lst in by_name.items():
        if n is None:
            continue
        got = list(el.children.indexes.get(n, []))
        if [id(x) for x in got] != [id(x) for x in lst]:
            problems.append('by-name lookup of %s disagrees with positional order' % n)
    for n, lst in el.children.indexes.items():
        for c in lst:
            if not any(c is k for k in kids):
                problems.append('by-name index lists a child of %s that is not in the child list' % n)
    return problems


def run_segment(R, maxlen, level):
    from hl7apy.core import Segment
    from hl7apy.parser import parse_segment
    ops = seg_ops()
    other_text = 'PID|||ID9^^^HOSP||DOE^JOHN'
    for n in range(1, maxlen + 1):
        for seq in itertools.product(range(len(ops)), repeat=n):
            s = Segment('PID', version=V, validation_level=level)
            other = parse_segment(other_text, version=V, validation_level=level)
            m = Model('PID')
            label = []
            ok = True
            for oi in seq:
                name, real, model = ops[oi]
                label.append(name)
                before_er7 = er7(s)
                before_kids = [id(c) for c in s.children]
                m2 = m.copy()
                expect = model(m2)
                if expect == 'skip':
                    # not modelled (composite update of an existing repetition): still run it and check that it does
                    # not reach into the other element (copy by value) nor break the tree invariants
                    try:
                        real(s, other)
                    except Exception:
                        pass
                    if other.to_er7() != other_text:
                        R.fail('C09:copy-aliases-source:' + ';'.join(label), 'C09:copy-aliases-source',
                               'after %s the source of a copy changed to %r' % (label, other.to_er7()), replay(label, level))
                        ok = False
                        break
                    pr = consistency(s, R, label)
                    if pr:
                        R.fail('C10:inconsistent:' + ';'.join(label), 'C10:inconsistent:%s' % pr[0][:40],
                               'after %s: %s' % (label, '; '.join(pr[:3])), replay(label, level))
                        ok = False
                        break
                    ok = None
                    break
                # C11: a read chain to a child that does not exist must not write
                _ = s.pid_11.xad_1.sad_1
                _ = s.pid_3.cx_10.cwe_1.value, s.pid_5.xpn_1.fn_1.value, s.pid_8.value
                _ = len(s.pid_13), repr(s.pid_4), list(s.pid_6)
                if er7(s) != before_er7 or [id(c) for c in s.children] != before_kids:
                    R.fail('C11:read-writes:' + ';'.join(label), 'C11:read-writes', 'reading absent children changed %r into %r after %s'
                           % (before_er7, er7(s), label))
                    ok = False
                    break
                try:
                    real(s, other)
                    raised = None
                except Exception as e:
                    raised = e
                if raised is not None:
                    # C12: a rejected operation leaves the target unchanged
                    if er7(s) != before_er7 or [id(c) for c in s.children] != before_kids:
                        R.fail('C12:rejected-op-changed-target:' + ';'.join(label), 'C12:rejected-op-changed-target:%s' % name,
                               'op %s raised %s but the segment went from %r to %r (history %s)'
                               % (name, type(raised).__name__, before_er7, er7(s), label), replay(label, level))
                        ok = False
                        break
                    if expect != 'raises':
                        R.fail('C09:unexpected-reject:' + ';'.join(label), 'C09:unexpected-reject:%s:%s' % (name, type(raised).__name__),
                               'op %s raised %s: %s (history %s)' % (name, type(raised).__name__, raised, label), replay(label, level))
                        ok = False
                        break
                    continue
                if expect == 'raises':
                    if er7(s) == before_er7 and [id(c) for c in s.children] == before_kids:
                        continue        # accepted as a no-op (e.g. deleting a child that only exists as a temporary one)
                    R.fail('C12:should-reject:' + ';'.join(label), 'C12:should-reject:%s' % name,
                           'op %s was accepted; segment now %r (history %s)' % (name, er7(s), label), replay(label, level))
                    ok = False
                    break
                m = m2
                if er7(s) != m.enc():
                    # (a write that follows a read of the same chain is C11's: "the first write materialises exactly
                    #  the path read"; any other mismatch is C09's)
                    pfx = 'C11:write-after-read' if name.startswith('read ') else 'C09:model-mismatch'
                    R.fail(pfx + ':' + ';'.join(label), '%s:%s' % (pfx, name),
                           'after %s the segment encodes %r, the ordered-list model %r' % (label, er7(s), m.enc()), replay(label, level))
                    ok = False
                    break
                pr = consistency(s, R, label)
                if pr:
                    R.fail('C10:inconsistent:' + ';'.join(label), 'C10:inconsistent:%s' % pr[0][:40],
                           'after %s: %s' % (label, '; '.join(pr[:3])), replay(label, level))
                    ok = False
                    break
                if other.to_er7() != other_text or consistency(other, R, label):
                    R.fail('C09:copy-aliases-source:' + ';'.join(label), 'C09:copy-aliases-source',
                           'after %s the source of a copy changed (%r) or no longer owns its children: %s'
                           % (label, other.to_er7(), consistency(other, R, label)[:2]), replay(label, level))
                    ok = False
                    break
            if ok:
                R.ok((level,) + seq, {'history': label, 'encodes': er7(s)} if n == 3 else None)
            elif ok is None:
                R.evaluations += 1


def replay(label, level):
    return ('# history on Segment("PID", version="2.5", validation_level=%d); other=parse_segment("PID|||ID9^^^HOSP||DOE^JOHN")\n'
            '# ' + ' ; '.join(label) + '\nraise SystemExit(1)') % level


def msg_ops():
    ops = []

    def setseg(name, text):
        def real(m):
            setattr(m, name.lower(), text)
        return ('%s=%r' % (name.lower(), text), real, ('set', name, text))

    def addseg(name, text):
        def real(m):
            s = m.add_segment(name)
            s.value = text
        return ('add_segment(%s)=%r' % (name, text), real, ('add', name, text))

    def delseg(name):
        def real(m):
            delattr(m, name.lower())
        return ('del %s' % name.lower(), real, ('del', name, None))

    def setidx(name, i, text):
        def real(m):
            getattr(m, name.lower())[i] = text
        return ('%s[%d]=%r' % (name.lower(), i, text), real, ('seti', name, (i, text)))
    def deep_write(path, text, seg, segtext):
        """C11: read a chain through segments that do not exist yet, then write: exactly the chain is materialised"""
        def real(m):
            obj = m
            parts = path.split('.')
            for p in parts[:-1]:
                obj = getattr(obj, p)
            setattr(obj, parts[-1], text)
        return ('%s=%r' % (path, text), real, ('deep', seg, segtext))

    def read_deeper_then_write(read_path, path, text, seg, segtext):
        def real(m):
            obj = m
            for p in read_path.split('.'):
                obj = getattr(obj, p)
            _ = len(obj)
            obj = m
            parts = path.split('.')
            for p in parts[:-1]:
                obj = getattr(obj, p)
            setattr(obj, parts[-1], text)
        return ('read %s; %s=%r' % (read_path, path, text), real, ('deep', seg, segtext))

    ops += [deep_write('pv2.pv2_3.ce_1', 'X', 'PV2', 'PV2|||X'),
            read_deeper_then_write('pd1.pd1_4.xcn_2.fn_1', 'pd1.pd1_4', 'A^B', 'PD1', 'PD1||||A^B')]
    ops += [setseg('EVN', 'EVN||20200101'), setseg('NK1', 'NK1|1'), setseg('NK1', 'NK1|9'), addseg('NK1', 'NK1|2'),
            addseg('PV1', 'PV1|1|I'), setseg('PID', 'PID|1'), delseg('NK1'), setidx('NK1', 1, 'NK1|7'), delseg('EVN')]
    return ops


def run_message(R, maxlen, level):
    from hl7apy.core import Message
    ops = msg_ops()
    for n in range(1, maxlen + 1):
        for seq in itertools.product(range(len(ops)), repeat=n):
            m = Message('ADT_A01', version=V, validation_level=level)
            model = [('MSH', None)]      # ordered list of (name, text); MSH text not compared
            label = []
            ok = True
            for oi in seq:
                name, real, (kind, seg, arg) = ops[oi]
                label.append(name)
                before = [(c.name, c.to_er7()) for c in m.children]
                m2 = list(model)
                expect = None
                idxs = [i for i, (nm, _) in enumerate(m2) if nm == seg]
                if kind == 'set':
                    if idxs:
                        m2[idxs[0]] = (seg, arg)
                    else:
                        m2.append((seg, arg))
                elif kind == 'add':
                    m2.append((seg, arg))
                elif kind == 'del':
                    if idxs:
                        m2.pop(idxs[0])
                    else:
                        expect = 'raises'
                elif kind == 'deep':
                    if idxs:
                        expect = 'skip'
                    else:
                        m2.append((seg, arg))
                elif kind == 'seti':
                    i, text = arg
                    if i < len(idxs):
                        m2[idxs[i]] = (seg, text)
                    else:
                        m2.append((seg, text))
                # C11: reads of absent segments / fields must not write
                _ = m.al1.al1_3.ce_2, len(m.db1), m.pid.pid_3.cx_10.cwe_1.value
                if [(c.name, c.to_er7()) for c in m.children] != before:
                    R.fail('C11:msg-read-writes:' + ';'.join(label), 'C11:msg-read-writes', 'reading absent children changed the message (history %s)' % label)
                    ok = False
                    break
                if expect == 'skip':
                    ok = None
                    break
                try:
                    real(m)
                    raised = None
                except Exception as e:
                    raised = e
                now = [(c.name, c.to_er7()) for c in m.children]
                if raised is not None:
                    if now != before:
                        R.fail('C12:msg-rejected-op-changed-target:' + ';'.join(label), 'C12:msg-rejected-op-changed-target:%s' % name,
                               'op %s raised %s but the message children changed (history %s)' % (name, type(raised).__name__, label))
                        ok = False
                        break
                    if expect != 'raises' and not (level == 1 and type(raised).__name__ == 'MaxChildLimitReached'):
                        R.fail('C09:msg-unexpected-reject:' + ';'.join(label), 'C09:msg-unexpected-reject:%s:%s' % (name, type(raised).__name__),
                               'op %s raised %s: %s (history %s)' % (name, type(raised).__name__, raised, label))
                        ok = False
                        break
                    continue
                if expect == 'raises':
                    R.fail('C12:msg-should-reject:' + ';'.join(label), 'C12:msg-should-reject:%s' % name, 'history %s' % label)
                    ok = False
                    break
                model = m2
                got = [(nm, t) for nm, t in now][1:]
                if got != model[1:]:
                    pfx = 'C11:msg-write-after-read' if name.startswith('read ') else 'C09:msg-model-mismatch'
                    R.fail(pfx + ':' + ';'.join(label), '%s:%s' % (pfx, name),
                           'after %s the message holds %r, the ordered-list model %r' % (label, got, model[1:]))
                    ok = False
                    break
                pr = consistency(m, R, label)
                if pr:
                    R.fail('C10:msg-inconsistent:' + ';'.join(label), 'C10:msg-inconsistent:%s' % pr[0][:40], 'after %s: %s' % (label, pr[:3]))
                    ok = False
                    break
            if ok:
                R.ok(('msg', level) + seq)
            elif ok is None:
                R.evaluations += 1


def main():
    a = args()
    R = Result('histories')
    maxlen = 4 if a.tier == 'thorough' else 3
    for level in (2, 1):
        run_segment(R, maxlen if level == 2 else maxlen - 1, level)
        run_message(R, maxlen if level == 2 else maxlen - 1, level)
    R.rule = 'all sequences over a fixed alphabet of API calls; non-trivial = distinct (level, sequence) that ran to its end'
    R.bound = 'sequence length <= %d (TOLERANT) / <= %d (STRICT); 20 segment ops, 11 message ops' % (maxlen, maxlen - 1)
    R.dump(a.out)


if __name__ == '__main__':
    try:
        main()
    except Exception:
        traceback.print_exc()
        sys.exit(3)
