"""developer driver: verify one function and print its obligations"""
import sys, time
sys.path.insert(0, '/verif')
from contracts import build_world
from pyvc.spec import Verifier
from pyvc import smt

def main():
    key = sys.argv[1]
    only = [a[2:] for a in sys.argv[2:] if a.startswith('--only=')]
    w = build_world()
    v = Verifier(w)
    t0 = time.time()
    res = v.verify(key)
    print('status', res.status, res.reason, 'paths', res.paths, 'vcs', len(res.vcs), 'gen %.2fs' % (time.time() - t0))
    ax = v.global_axioms()
    bad = 0
    for vc in res.vcs:
        if only and not any(o in vc.name for o in only[0:]) and not any(vc.name.endswith(o.split('=')[-1]) for o in only):
            continue
        txt = smt.vc_to_smt2(vc, ax)
        r = smt.discharge(txt, timeout=10)
        if r['status'] != 'unsat' or '-a' in sys.argv:
            print('%-8s %-10s %6.2fs  %s %s' % (r['status'], r['solver'], r['seconds'], vc.name.split(':',1)[1], vc.info.get('line','')))
        if r['status'] != 'unsat':
            bad += 1
            if '-v' in sys.argv:
                print(txt)
    print('not discharged:', bad, 'of', len(res.vcs))
    for n in res.notes:
        print('note:', n)

main()
