"""developer driver: verify one function and print its obligations (parallel discharge)"""
import sys, time, collections
sys.path.insert(0, '/verif')
import multiprocessing as mp
from contracts import build_world
from pyvc.spec import Verifier
from pyvc import smt
from framework.report import base_name

def solve(job):
    name, txt, to = job
    r = smt.discharge(txt, timeout=to)
    r['name'] = name
    return r

def main():
    key = sys.argv[1]
    only = [a[7:] for a in sys.argv[2:] if a.startswith('--only=')]
    to = float(([a[5:] for a in sys.argv[2:] if a.startswith('--to=')] or ['5'])[0])
    w = build_world()
    v = Verifier(w)
    t0 = time.time()
    res = v.verify(key)
    print('status', res.status, res.reason, 'paths', res.paths, 'vcs', len(res.vcs), 'gen %.2fs' % (time.time() - t0))
    ax = v.global_axioms()
    jobs = []
    for vc in res.vcs:
        if only and not any(o in vc.name for o in only):
            continue
        jobs.append((vc.name, smt.vc_to_smt2(vc, ax), to))
    with mp.get_context('fork').Pool(16) as pool:
        rs = pool.map(solve, jobs, chunksize=1)
    bad = collections.OrderedDict()
    for r in rs:
        if r['status'] != 'unsat':
            b = base_name(r['name']).split(':', 1)[1]
            bad.setdefault((b, r['status']), []).append(r['name'].split('@')[-1])
    for (b, s), ps in bad.items():
        print('%-8s %s   [%s]' % (s, b, ' '.join(ps[:8])))
    print('not discharged:', sum(len(p) for p in bad.values()), 'of', len(jobs))
    for n in sorted(set(res.notes)):
        if '-n' in sys.argv:
            print('note:', n)

main()
